import CuriesVerif.Model.Incremental
import CuriesVerif.Model.Trie

/-!
# A uniform query interface over the converter model

`Query` names a public method, its string arguments and the two mode flags; `Val` is the
canonical form of what the method returns or raises.  The harness executes the same queries on
`curies.Converter` and compares `Val`s; the spec layer (`Spec/Answer.lean`) defines what each
query *should* answer from the record list alone.
-/

inductive Val where
  | none
  | str (s : Str)
  | pair (p i : Str)
  | strs (l : List Str)
  | bool (b : Bool)
  | recs (l : List Record)
  | dict (l : List (Str × Str))
  | err (e : Err)
  | bad (msg : String)          -- the query itself is malformed (never produced for real cases)
deriving DecidableEq, Repr, Inhabited

structure Query where
  meth : String
  args : List Str := []
  strict : Bool := false
  passthrough : Bool := false
deriving DecidableEq, Repr, Inhabited

namespace Val
def ofStr : Except Err (Option Str) → Val
  | .ok (some s) => .str s
  | .ok Option.none => .none
  | .error e => .err e
def ofPair : Except Err (Option (Str × Str)) → Val
  | .ok (some (p, i)) => .pair p i
  | .ok Option.none => .none
  | .error e => .err e
def ofStrs : Except Err (Option (List Str)) → Val
  | .ok (some l) => .strs l
  | .ok Option.none => .none
  | .error e => .err e
end Val

namespace Conv

/-- dispatch of a query on the model converter -/
def run (c : Conv) (q : Query) : Val :=
  match q.meth, q.args with
  | "parse_uri", [u] => .ofPair (c.parseUri u q.strict)
  | "compress", [u] => .ofStr (c.compress u q.strict q.passthrough)
  | "is_uri", [u] => .bool (c.isUri u)
  | "parse_curie", [s] => .ofPair (c.parseCurie s q.strict)
  | "standardize_prefix", [p] => .ofStr (c.standardizePrefix p q.strict q.passthrough)
  | "expand_pair", [p, i] => .ofStr (c.expandPair p i q.strict q.passthrough)
  | "expand_reference", [p, i] => .ofStr (c.expandReference (p, i) q.strict q.passthrough)
  | "expand", [s] => .ofStr (c.expand s q.strict q.passthrough)
  | "expand_pair_all", [p, i] => .ofStrs (c.expandPairAll p i q.strict)
  | "expand_all", [s] => .ofStrs (c.expandAll s q.strict)
  | "is_curie", [s] => .bool (c.isCurie s)
  | "parse", [s] => .ofPair (c.parse s q.strict)
  | "compress_or_standardize", [s] => .ofStr (c.compressOrStandardize s q.strict q.passthrough)
  | "expand_or_standardize", [s] => .ofStr (c.expandOrStandardize s q.strict q.passthrough)
  | "standardize_curie", [s] => .ofStr (c.standardizeCurie s q.strict q.passthrough)
  | "standardize_uri", [u] => .ofStr (c.standardizeUri u q.strict q.passthrough)
  | "compress_strict", [u] => .ofStr (c.compressStrict u)
  | "expand_strict", [s] => .ofStr (c.expandStrict s)
  | "format_curie", [p, i] => .str (c.formatCurie p i)
  | "get_record", [p] => (match c.getRecord p with | some r => .recs [r] | Option.none => .none)
  | "records", [] => .recs c.records
  | "prefix_map", [] => .dict (Dict.items c.prefixMap)
  | "synonym_to_prefix", [] => .dict (Dict.items c.synToPrefix)
  | "reverse_prefix_map", [] => .dict (Dict.items c.revMap)
  | "trie", [] => .dict (Dict.items c.trie)
  | "pattern_map", [] => .dict (Dict.items c.patMap)
  | "bimap", [] => .dict (Dict.items c.bimap)
  | "reverse_bimap", [] => .dict (Dict.items c.reverseBimap)
  | "get_prefixes", [] => .strs (c.getPrefixes q.strict)         -- `strict` carries include_synonyms
  | "get_uri_prefixes", [] => .strs (c.getUriPrefixes q.strict)
  | "delimiter", [] => .str c.delim
  -- `converter.trie.longest_prefix_item(u)`, answered by the structural trie holding every assignment made so far
  | "trie_lpi", [u] => (match (Trie.ofList c.trie.reverse).lpi u with | some (k, p) => .pair k p | Option.none => .none)
  | m, _ => .bad s!"unknown query {m}"

end Conv
