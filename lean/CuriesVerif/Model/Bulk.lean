import CuriesVerif.Model.Run

/-!
# Model of the bulk operations (api.py:2188-2384)

A data-frame column / a TSV file is a list of rows of cells; pandas' `Series.map` and the `csv`
module are trusted to deliver and store the cells (exercised on real data frames and files).
-/

namespace Bulk

/-- the scalar method a bulk method maps over the column (`functools.partial(pre_func, strict=…,
passthrough=…)`); `ambiguous` selects the `*_or_standardize` variant -/
def scalar (c : Conv) (meth : String) (ambiguous strict passthrough : Bool) (cell : Str) : Except Err (Option Str) :=
  match meth, ambiguous with
  | "compress", false => c.compress cell strict passthrough
  | "compress", true => c.compressOrStandardize cell strict passthrough
  | "expand", false => c.expand cell strict passthrough
  | "expand", true => c.expandOrStandardize cell strict passthrough
  | "standardize_prefix", _ => c.standardizePrefix cell strict passthrough
  | "standardize_curie", _ => c.standardizeCurie cell strict passthrough
  | "standardize_uri", _ => c.standardizeUri cell strict passthrough
  | _, _ => .error .other

/-- `df[target] = df[column].map(func)`: every row gets the scalar result in the target column
(`None` becomes NA, here `none`); `target = row.length` appends a new column -/
def pdRow (f : Str → Except Err (Option Str)) (col target : Nat) (row : List (Option Str)) :
    Except Err (List (Option Str)) :=
  match row[col]? with
  | some (some cell) =>
    match f cell with
    | .ok v => .ok (if target < row.length then row.set target v else row ++ [v])
    | .error e => .error e
  | _ => .error .other

def pdMap (f : Str → Except Err (Option Str)) (col target : Nat) (rows : List (List (Option Str))) :
    Except Err (List (List (Option Str))) :=
  rows.mapM (pdRow f col target)

/-- `row[column] = func(row[column]) or ""` -/
def fileRow (f : Str → Except Err (Option Str)) (col : Nat) (row : List Str) : Except Err (List Str) :=
  match row[col]? with
  | some cell =>
    match f cell with
    | .ok v => .ok (row.set col (v.getD []))
    | .error e => .error e
  | none => .error .indexError

/-- `_file_helper(func, path, column, sep, header)` over an abstract disk holding the rows of the
file: phase 1 reads and converts every row, phase 2 (only reached if no cell raised) rewrites
the file.  Returns the outcome and the new disk content. -/
def fileHelper (f : Str → Except Err (Option Str)) (col : Nat) (header : Bool) (disk : List (List Str)) :
    Except Err Unit × List (List Str) :=
  let split : Option (Option (List Str) × List (List Str)) :=
    if header then
      match disk with
      | [] => none                         -- `next(reader)` on an empty file: StopIteration
      | h :: rest => some (some h, rest)
    else some (none, disk)
  match split with
  | none => (.error .other, disk)
  | some (hdr, body) =>
    match body.mapM (fileRow f col) with
    | .error e => (.error e, disk)          -- nothing has been written
    | .ok rows =>
      let hdrRows := match hdr with
        | some h => if h.isEmpty then [] else [h]    -- `if _header:` — an empty header row is falsy
        | none => []
      (.ok (), hdrRows ++ rows)

end Bulk
