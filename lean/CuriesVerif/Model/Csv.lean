import CuriesVerif.Basic

/-!
# Byte-level model of the `csv` dialect the library writes and reads

`write_tsv`, `write_triples` / `read_triples` and the `file_*` bulk operations all go through
`csv.writer(fh, delimiter=sep)` / `csv.reader(fh, delimiter=sep)` on files opened with
`newline=""`: quote character `"`, `doublequote=True`, `QUOTE_MINIMAL`, line terminator `\r\n`.
This file models what is written and how a character stream is split back into rows
(CPython `Modules/_csv.c`: `join_append_data`, `parse_process_char`), so that the round-trip
laws can be stated about the bytes on disk.  The model is validated against the real module on
every run (rows → text and arbitrary text → rows, malformed text included).

With `newline=""` the file object hands the reader the lines split after `\n`, `\r\n` or a lone
`\r`, terminators kept; the reader processes the characters of a line and then an end-of-line
marker.  A single pass over the character stream with one character of look-ahead (for `\r\n`) is
equivalent and is what `csvRead` does (state `eatLF`).
-/

namespace Csv

def quote : Nat := 34
def cr : Nat := 13
def lf : Nat := 10

/-- `QUOTE_MINIMAL`: a field is quoted when it contains the delimiter, the quote character or a
character of the line terminator -/
def needsQuote (d : Nat) (f : Str) : Bool := f.any fun c => c == d || c == quote || c == cr || c == lf

/-- the characters of a quoted field: quote characters doubled -/
def escape (f : Str) : Str := f.flatMap fun c => if c == quote then [quote, quote] else [c]

def encodeField (d : Nat) (f : Str) : Str :=
  if needsQuote d f then [quote] ++ escape f ++ [quote] else f

/-- fields joined by the delimiter -/
def joinFields (d : Nat) : List Str → Str
  | [] => []
  | [f] => f
  | f :: fs => f ++ [d] ++ joinFields d fs

/-- `writer.writerow(row)`: a row consisting of one empty field is written as `""` (it would
otherwise be indistinguishable from an empty row) -/
def encodeRow (d : Nat) (row : List Str) : Str :=
  (if row == [[]] then [quote, quote] else joinFields d (row.map (encodeField d))) ++ [cr, lf]

/-- `writer.writerows(rows)` -/
def csvWrite (d : Nat) (rows : List (List Str)) : Str := rows.flatMap (encodeRow d)

/-- reader states of `_csv.c` that can be reached without an escape character; `eatLF` is
"a record has just been ended by `\r`": a `\n` that follows belongs to the same terminator -/
inductive St where
  | startRecord | startField | inField | inQuoted | quoteInQuoted | eatLF
deriving DecidableEq, Repr

/-- `field` and `fields` are accumulated in reverse -/
structure Acc where
  field : Str := []
  fields : List Str := []
  rows : List (List Str) := []
deriving DecidableEq, Repr

namespace Acc
def addChar (a : Acc) (c : Nat) : Acc := { a with field := c :: a.field }
def saveField (a : Acc) : Acc := { a with field := [], fields := a.field.reverse :: a.fields }
def endRecord (a : Acc) : Acc := { field := [], fields := [], rows := a.fields.reverse :: a.rows }
end Acc

/-- the state after a terminator character `c` -/
def afterTerm (c : Nat) : St := if c == cr then .eatLF else .startRecord

/-- `parse_process_char` at the start of a record (`START_RECORD` falls through to `START_FIELD`) -/
def stepStart (d : Nat) (a : Acc) (c : Nat) : St × Acc :=
  if c == cr || c == lf then (afterTerm c, a.endRecord)              -- blank line: an empty row
  else if c == quote then (.inQuoted, a)
  else if c == d then (.startField, a.saveField)
  else (.inField, a.addChar c)

def step (d : Nat) (sa : St × Acc) (c : Nat) : St × Acc :=
  let (st, a) := sa
  match st with
  | .startRecord => stepStart d a c
  | .eatLF => if c == lf then (.startRecord, a) else stepStart d a c
  | .startField =>
    if c == cr || c == lf then (afterTerm c, a.saveField.endRecord)
    else if c == quote then (.inQuoted, a)
    else if c == d then (.startField, a.saveField)
    else (.inField, a.addChar c)
  | .inField =>
    if c == cr || c == lf then (afterTerm c, a.saveField.endRecord)
    else if c == d then (.startField, a.saveField)
    else (.inField, a.addChar c)
  | .inQuoted =>
    if c == quote then (.quoteInQuoted, a) else (.inQuoted, a.addChar c)
  | .quoteInQuoted =>
    if c == quote then (.inQuoted, a.addChar quote)
    else if c == d then (.startField, a.saveField)
    else if c == cr || c == lf then (afterTerm c, a.saveField.endRecord)
    else (.inField, a.addChar c)

/-- end of input: an unterminated last record is returned (the end-of-line marker after the last
line, resp. the non-strict handling of an open quoted field) -/
def finish (sa : St × Acc) : Acc :=
  match sa.1 with
  | .startRecord => sa.2
  | .eatLF => sa.2
  | _ => sa.2.saveField.endRecord

/-- `list(csv.reader(fh, delimiter=d))` for a file opened with `newline=""` -/
def csvRead (d : Nat) (s : Str) : List (List Str) := (finish (s.foldl (step d) (.startRecord, {}))).rows.reverse

/-- what opening the file *without* `newline=""` does before the reader sees the text: universal
newlines, `\r\n` and `\r` become `\n` (the defect F6 repaired in `_file_helper`) -/
def translateNewlines : Str → Str
  | [] => []
  | 13 :: 10 :: rest => 10 :: translateNewlines rest
  | 13 :: rest => 10 :: translateNewlines rest
  | c :: rest => c :: translateNewlines rest

end Csv
