import CuriesVerif.Model.Incremental

/-!
# Model of `curies.reconciliation` (after the repairs F3/F4)

`remap_curie_prefixes`, `remap_uri_prefixes`, `rewire`, `_order_curie_remapping`.
A remapping is a Python dict: an association list with distinct keys in insertion order.
Line references are to `/repo/src/curies/reconciliation.py`.
-/

/-- `sorted(set(xs).union({x}).difference(dropped))` -/
def setUpdate (xs : List Str) (x : Str) (dropped : List Str) : List Str :=
  sortStrs (((xs ++ [x]).eraseDups).filter fun s => !dropped.contains s)

namespace Reconcile

/-- `converter.standardize_prefix(p)` (default mode) as used by `_order_curie_remapping` -/
def std (c : Conv) (p : Str) : Option Str := Dict.get c.synToPrefix p

/-- two different keys standardise to the same known prefix (lines 206-214) -/
def hasDuplicateKeys (c : Conv) (rm : List (Str × Str)) : Bool :=
  (combinations2 (rm.map (·.1))).any fun (a, b) => (std c a).isSome && std c a == std c b

/-- two pairs whose values standardise to the same known prefix (lines 216-227); values are
counted with multiplicity -/
def hasDuplicateValues (c : Conv) (rm : List (Str × Str)) : Bool :=
  (combinations2 (rm.map (·.2))).any fun (a, b) => (std c a).isSome && std c a == std c b

/-- the strings filed under one known canonical prefix by the correspondence counter
(lines 229-246) -/
def correspondence (c : Conv) (rm : List (Str × Str)) (k : Str) : List Str :=
  (rm.flatMap fun (key, value) =>
    (if std c key == some k then [key] else []) ++
    (if std c key != std c value && std c value == some k then [value] else [])).eraseDups

def isInconsistent (c : Conv) (rm : List (Str × Str)) : Bool :=
  (rm.flatMap fun (key, value) => (std c key).toList ++ (std c value).toList).any fun k =>
    (correspondence c rm k).length > 1

/-- the peel-off loop (lines 254-264): repeatedly emit, sorted, the pairs whose value is not a
key of what is left; `fuel` bounds the number of rounds (each round removes at least one pair) -/
def peel : Nat → List (Str × Str) → Except Err (List (Str × Str))
  | _, [] => .ok []
  | 0, _ :: _ => .error .cycle
  | fuel + 1, d =>
    let noOutgoing := (d.map (·.2)).filter fun v => !(d.map (·.1)).contains v
    if noOutgoing.isEmpty then .error .cycle
    else
      let edges := isort pairLe (d.filter fun kv => noOutgoing.contains kv.2)
      match peel fuel (d.filter fun kv => !noOutgoing.contains kv.2) with
      | .ok rest => .ok (edges ++ rest)
      | .error e => .error e

/-- `_order_curie_remapping` -/
def orderCurieRemapping (c : Conv) (rm : List (Str × Str)) : Except Err (List (Str × Str)) :=
  if hasDuplicateKeys c rm then .error .dupKeys
  else if hasDuplicateValues c rm then .error .dupValues
  else if isInconsistent c rm then .error .inconsistent
  else if !((rm.map (·.1)).any fun k => (rm.map (·.2)).contains k) then .ok (isort pairLe rm)
  else peel rm.length rm

/-- working state of `remap_curie_prefixes`: the copied records (updated in place by position)
and the positions popped from the `records` dict, in pop order -/
structure RState where
  working : List Record
  popped : List Nat

/-- `new_record is not None and record != new_record`, where `new_record` is the first working
record that lists `new` among its prefixes -/
def clashWith (working : List Record) (record : Record) (new : Str) : Bool :=
  match working.find? fun r => r.allP.contains new with
  | some nr => record != nr
  | none => false

/-- one iteration of the main loop (lines 58-91) -/
def remapStep (c : Conv) (handedOver : List Str) (s : RState) (pair : Str × Str) : Except Err RState :=
  let (old, new) := pair
  match std c old with
  | none => .ok s
  | some oldCanon =>
    -- `records.pop(_old)`: the record whose *original* canonical prefix is `_old`
    match c.records.findIdx? (fun r => r.pfx == oldCanon) with
    | none => .error .keyError
    | some i =>
      if s.popped.contains i then .error .keyError
      else
        match s.working[i]? with
        | none => .error .keyError
        | some record =>
          if clashWith s.working record new then .ok { s with popped := s.popped ++ [i] }
          else
            let dropped := if handedOver.contains old then [new, old] else [new]
            let record' := { record with pSyn := setUpdate record.pSyn record.pfx dropped, pfx := new }
            .ok { working := s.working.set i record', popped := s.popped ++ [i] }

/-- the records handed to the final `Converter(...)`: untouched ones in original order, then the
popped ones in pop order -/
def RState.result (s : RState) : List Record :=
  ((List.range s.working.length).filter (fun i => !s.popped.contains i)).filterMap (s.working[·]?) ++
    s.popped.filterMap (s.working[·]?)

/-- `remap_curie_prefixes(converter, remapping)` -/
def remapCuriePrefixes (c : Conv) (rm : List (Str × Str)) : Except Err Conv :=
  match orderCurieRemapping c rm with
  | .error e => .error e
  | .ok ordering =>
    let handedOver := (rm.filter fun kv => (std c kv.1).isSome).map (·.2)
    match ordering.foldlM (remapStep c handedOver) { working := c.records, popped := [] } with
    | .error e => .error e
    | .ok s => Conv.init? s.result

/-- `_get_uri_preferred_or_synonym` / `_get_curie_preferred_or_synonym` -/
def firstUpgrade (canonical : Str) (synonyms : List Str) (upgrades : List (Str × Str)) : Option Str :=
  match Dict.get upgrades canonical with
  | some v => some v
  | none => synonyms.findSome? fun s => Dict.get upgrades s

/-- the per-record upgrade shared by `remap_uri_prefixes` and `rewire` -/
def upgradeUri (c : Conv) (record : Record) (new : Str) : Record :=
  if Dict.has c.revMap new && !record.uSyn.contains new then record
  else { record with uSyn := setUpdate record.uSyn record.uri [new], uri := new }

/-- `remap_uri_prefixes(converter, remapping)` (lines 94-129) -/
def remapUriPrefixes (c : Conv) (rm : List (Str × Str)) : Except Err Conv :=
  if (rm.map (·.1)).any fun k => (rm.map (·.2)).contains k then .error .transitive
  else
    Conv.init? (c.records.map fun record =>
      match firstUpgrade record.uri record.uSyn rm with
      | none => record
      | some new => upgradeUri c record new)

/-- `rewire(converter, rewiring)` (lines 132-174) -/
def rewire (c : Conv) (rw : List (Str × Str)) : Except Err Conv :=
  Conv.init? (c.records.map fun record =>
    match firstUpgrade record.pfx record.pSyn rw with
    | none => record
    | some new => if new == record.uri then record else upgradeUri c record new)

end Reconcile
