import CuriesVerif.Model.Converter

/-!
# Model of `curies.discovery.discover` (discovery.py:138-268)

`alnum : Nat → Bool` stands for "this code point is alphanumeric" (`str.isalnum` is
`len(s) > 0 and all(c.isalnum() for c in s)`); it is a parameter, so the theorems hold for every
classification, and the harness ships the real one for the code points of each case.
-/

namespace Discovery

def defaultDelimiters : List Str := [[35], [47], [95]]      -- ("#", "/", "_")

/-- `luid.isalnum()` -/
def isAlnum (alnum : Nat → Bool) (s : Str) : Bool := !s.isEmpty && s.all alnum

/-- "https://github.com" -/
def githubPrefix : Str := [104,116,116,112,115,58,47,47,103,105,116,104,117,98,46,99,111,109]
/-- "issues" -/
def issues : Str := [105,115,115,117,101,115]

/-- the hard-coded special case (discovery.py:257) -/
def isGithubIssue (u : Str) : Bool := githubPrefix.isPrefixOf u && contains u issues

/-- the inner `for delimiter in delimiters` loop: the first delimiter (in priority order) that
occurs in `u` and whose right-most split leaves an alphanumeric tail -/
def splitUri (alnum : Nat → Bool) (delims : List Str) (u : Str) : Option (Str × Str) :=
  delims.findSome? fun d =>
    match rpartition? d u with
    | none => none
    | some (pre, luid) => if isAlnum alnum luid then some (pre ++ d, luid) else none

/-- add one `(uri_prefix, luid)` observation to the `defaultdict(set)` -/
def addLuid (acc : List (Str × List Str)) (k luid : Str) : List (Str × List Str) :=
  if acc.any (fun g => g.1 == k) then
    acc.map fun g => if g.1 == k then (g.1, if g.2.contains luid then g.2 else g.2 ++ [luid]) else g
  else acc ++ [(k, [luid])]

/-- `_get_uri_prefix_to_luids` -/
def prefixToLuids (alnum : Nat → Bool) (known : Str → Bool) (delims : List Str) (uris : List Str) :
    List (Str × List Str) :=
  let delims := if delims.isEmpty then defaultDelimiters else delims
  uris.foldl (fun acc u =>
    if known u then acc
    else if isGithubIssue u then acc
    else match splitUri alnum delims u with
      | some (k, luid) => addLuid acc k luid
      | none => acc) []

/-- most significant digits first, by repeated division; `fuel` bounds the number of digits -/
def digitsAux : Nat → Nat → Str → Str
  | 0, _, acc => acc
  | fuel + 1, n, acc => if n < 10 then (48 + n) :: acc else digitsAux fuel (n / 10) ((48 + n % 10) :: acc)

/-- `str(n)`: the decimal digits of `n` as code points -/
def natStr (n : Nat) : Str := digitsAux (n + 1) n []

/-- `cutoff is None or len(luids) >= cutoff` -/
def keepBy (cutoff : Option Nat) (n : Nat) : Bool :=
  match cutoff with
  | none => true
  | some c => decide (c ≤ n)

/-- the records `discover` hands to `Converter(...)` -/
def records (alnum : Nat → Bool) (known : Str → Bool) (delims : List Str) (cutoff : Option Nat)
    (metaprefix : Str) (uris : List Str) : List Record :=
  let groups := isort (fun (a b : Str × List Str) => strLe a.1 b.1) (prefixToLuids alnum known delims uris)
  let kept := (groups.filter fun g => keepBy cutoff g.2.length).map (·.1)
  (List.range kept.length).zipWith (fun i up => { pfx := metaprefix ++ natStr (i + 1), uri := up }) kept

/-- `converter is not None and converter.is_uri(uri)` -/
def knownOf : Option Conv → Str → Bool
  | some c => c.isUri
  | none => fun _ => false

/-- `discover(uris, delimiters=…, cutoff=…, metaprefix=…, converter=…)` -/
def discover (alnum : Nat → Bool) (conv : Option Conv) (delims : List Str) (cutoff : Option Nat)
    (metaprefix : Str) (uris : List Str) : Except Err Conv :=
  Conv.init? (records alnum (knownOf conv) delims cutoff metaprefix uris)

end Discovery
