import CuriesVerif.Model.Converter

/-!
# Model of the loaders (api.py:1022-1321) and `upgrade_prefix_map` (api.py:2905-2984)

A Python `dict` argument whose iteration order matters is an association list with distinct
keys, in insertion order.
-/

/-- group values by key in first-seen order: `dd = defaultdict(list); dd[k].append(v)` -/
def groupBy (kvs : List (Str × Str)) : List (Str × List Str) :=
  kvs.foldl (fun acc kv =>
    if acc.any (fun g => g.1 == kv.1) then acc.map (fun g => if g.1 == kv.1 then (g.1, g.2 ++ [kv.2]) else g)
    else acc ++ [(kv.1, [kv.2])]) []

/-- `sorted(xs, key=len)` (stable) -/
def sortByLen (xs : List Str) : List Str := isort (fun a b => decide (a.length ≤ b.length)) xs

namespace Loaders

/-- `Converter.from_prefix_map` : one record per item -/
def prefixMapRecords (pm : List (Str × Str)) : List Record :=
  pm.map fun kv => { pfx := kv.1, uri := kv.2 }

/-- `Converter.from_priority_prefix_map`: first URI prefix canonical, the rest synonyms, in order.
An empty list raises `IndexError`; a repeated first element fails the `Record` validator. -/
def priorityRecords (data : List (Str × List Str)) : Except Err (List Record) :=
  data.mapM fun kv =>
    match kv.2 with
    | [] => .error .indexError
    | u :: us => Record.validate { pfx := kv.1, uri := u, uSyn := us }

/-- `Converter.from_reverse_prefix_map`: group URI prefixes by CURIE prefix, a shortest one
(the first among equally short ones, the sort being stable) becomes canonical -/
def reverseRecords (rpm : List (Str × Str)) : Except Err (List Record) :=
  (groupBy (rpm.map fun kv => (kv.2, kv.1))).mapM fun g =>
    match sortByLen g.2 with
    | [] => .error .indexError
    | u :: us => Record.validate { pfx := g.1, uri := u, uSyn := us }

/-- a JSON-LD term value, as far as `from_jsonld` looks at it -/
inductive JTerm where
  | str (s : Str)                  -- a string
  | prefixDict (id : Option Str)   -- a dict with `"@prefix": true`; `@id` may be missing (KeyError)
  | other                          -- anything else: number, null, list, dict without `@prefix: true`
deriving Repr, Inhabited

/-- `Converter.from_jsonld`: the term filter, producing the prefix map handed to `from_prefix_map`.
(Keys of a JSON object are distinct, so no overwriting happens.) -/
def jsonldPrefixMap (ctx : List (Str × JTerm)) : Except Err (List (Str × Str)) :=
  ctx.foldlM (fun acc kv =>
    if kv.1.isEmpty then .ok acc
    else if kv.1.head? == some 64 then .ok acc       -- startswith("@")
    else match kv.2 with
      | .str s => .ok (acc ++ [(kv.1, s)])
      | .prefixDict (some id) => .ok (acc ++ [(kv.1, id)])
      | .prefixDict none => .error .keyError
      | .other => .ok acc) []

/-- `upgrade_prefix_map`: group CURIE prefixes by URI prefix, sort each group, sort the groups by
URI prefix; the first CURIE prefix of a group is canonical, the rest synonyms -/
def upgradePrefixMap (pm : List (Str × Str)) : Except Err (List Record) :=
  let groups := (groupBy (pm.map fun kv => (kv.2, kv.1))).map fun g => (g.1, sortStrs g.2)
  let sorted := isort (fun (a b : Str × List Str) => strLe a.1 b.1) groups
  sorted.mapM fun g =>
    match g.2 with
    | [] => .error .indexError
    | p :: ps => Record.validate { pfx := p, uri := g.1, pSyn := ps }

end Loaders
