import CuriesVerif.Model.Csv
import CuriesVerif.Model.Bulk
import CuriesVerif.Model.Reference

/-!
# The text on disk: `write_tsv`, `write_triples` / `read_triples`, `_file_helper`

The same functions as in `Model/Writers.lean`, `Model/Reference.lean` and `Model/Bulk.lean`, but
down to the characters of the file, through the csv model (`Model/Csv.lean`).
-/

namespace Files

/-- `write_tsv(converter, path, header=(h1, h2))` (api.py:2866-2901) -/
def tsvText (h1 h2 : Str) (recs : List Record) : Str :=
  Csv.csvWrite 9 ([h1, h2] :: recs.map fun r => [r.pfx, r.uri])

/-- the file parsed as a two-column prefix map, header row skipped -/
def tsvPairs (text : Str) : Option (List (Str × Str)) :=
  ((Csv.csvRead 9 text).drop 1).mapM fun row =>
    match row with
    | [p, u] => some (p, u)
    | _ => none

/-- `write_triples(triples, path, header=…)` (triples.py:61-73): three CURIEs per row -/
def triplesText (header : List Str) (ts : List (Ref × Ref × Ref)) : Str :=
  Csv.csvWrite 9 (header :: ts.map fun t => [t.1.curie, t.2.1.curie, t.2.2.curie])

def readTripleRow (cls : RefClass) (row : List Str) : Except Err (Ref × Ref × Ref) :=
  match row with
  | [s, p, o] =>
    match Ref.fromCurie cls s, Ref.fromCurie cls p, Ref.fromCurie cls o with
    | .ok s, .ok p, .ok o => .ok (s, p, o)
    | .error e, _, _ => .error e
    | _, .error e, _ => .error e
    | _, _, .error e => .error e
  | _ => .error .valueError           -- tuple unpacking of a row that has not three cells

/-- `read_triples(path, reference_cls=cls)` (triples.py:76-92) -/
def readTriples (cls : RefClass) (text : Str) : Except Err (List (Ref × Ref × Ref)) :=
  match Csv.csvRead 9 text with
  | [] => .error .other                -- `next(reader)` on an empty file
  | _ :: rows => rows.mapM (readTripleRow cls)

/-- `_file_helper` (api.py) on the text of the file: the rows are parsed, converted in memory,
and only when no cell raised is the file rewritten -/
def fileHelperText (f : Str → Except Err (Option Str)) (col : Nat) (header : Bool) (d : Nat) (text : Str) :
    Except Err Unit × Str :=
  match Bulk.fileHelper f col header (Csv.csvRead d text) with
  | (.ok _, rows) => (.ok (), Csv.csvWrite d rows)
  | (.error e, _) => (.error e, text)

end Files
