import CuriesVerif.Model.Converter

/-!
# Model of the resolver apps (resolver_service.py, after the repair F7)

Both frameworks compile the route into a regular expression whose first group is `[^/]+`
(greedy, slash-free, non-empty) followed by the literal delimiter; the second group is
Werkzeug's `path` converter (`[^/].*?`, i.e. non-empty and not starting with `/`) resp.
Starlette's `path` convertor (`.*`).  The handler then re-splits at the first delimiter.
Requests are restricted to URL-path-safe characters (no percent-encoding is modelled).
-/

namespace Resolver

inductive Framework where
  | flask | fastapi
deriving DecidableEq, Repr

/-- is `n` a position where the route pattern can put the delimiter?  `rest` is the request path
without its leading `/`. -/
def validSplit (fw : Framework) (d rest : Str) (n : Nat) : Bool :=
  let a := rest.take n
  let tail := rest.drop n
  0 < n && !a.contains 47 && d.isPrefixOf tail &&
    (match fw with
     | .flask => match tail.drop d.length with
        | [] => false
        | c :: _ => c != 47
     | .fastapi => true)

/-- greedy first group: the largest valid split position -/
def matchRoute (fw : Framework) (d rest : Str) : Option (Str × Str) :=
  ((List.range (rest.length + 1)).reverse.find? (validSplit fw d rest)).map fun n =>
    (rest.take n, rest.drop (n + d.length))

/-- `_first_split`: split at the first delimiter, like the rest of the library -/
def firstSplit (d a b : Str) : Str × Str :=
  match partition? d a with
  | some (p, rest) => (p, rest ++ d ++ b)
  | none => (a, b)

/-- status code and `Location` of `GET /<rest>` -/
def respond (fw : Framework) (c : Conv) (rest : Str) : Nat × Option Str :=
  match matchRoute fw c.delim rest with
  | none => (404, none)
  | some (a, b) =>
    let (p, i) := firstSplit c.delim a b
    match c.expandPair p i with
    | .ok (some loc) => (302, some loc)
    | _ => (422, none)

end Resolver
