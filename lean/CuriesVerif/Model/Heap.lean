import CuriesVerif.Model.Reconcile
import CuriesVerif.Model.Discovery

/-!
# Aliasing-level model: `Record` objects behind references (C10)

Python converters hold *references* to mutable `Record` objects, and `_merge` as well as the
reconciliation functions assign to the objects they hold.  Here the heap is a list of records,
a reference is an index, and a converter holds a list of references (its lookup dicts are its
own).  Every derivation is written with the object-identity behaviour of the code after the
repair F3 (`model_copy(deep=True)` on entry); `chainPinnedH` is the pre-repair `chain`, which
hands the inputs' own objects to the new converter.
-/

abbrev Heap := List Record

/-- a converter at the aliasing level -/
structure HConv where
  delim : Str
  refs : List Nat
  prefixMap : Dict Str
  synToPrefix : Dict Str
  revMap : Dict Str
  trie : Dict Str
  patMap : Dict Str
deriving Repr

namespace HConv

/-- what the converter looks like by value in heap `h` -/
def view (h : Heap) (c : HConv) : Option Conv :=
  (c.refs.mapM fun r => h[r]?).map fun recs =>
    { delim := c.delim, records := recs, prefixMap := c.prefixMap, synToPrefix := c.synToPrefix,
      revMap := c.revMap, trie := c.trie, patMap := c.patMap }

/-- a fresh converter whose records are the given references (`Converter(records)` keeps the
objects it is given) -/
def ofConv (c : Conv) (refs : List Nat) : HConv :=
  { delim := c.delim, refs := refs, prefixMap := c.prefixMap, synToPrefix := c.synToPrefix,
    revMap := c.revMap, trie := c.trie, patMap := c.patMap }

end HConv

/-- `record.model_copy(deep=True)`: a new object with the same content -/
def allocCopy (h : Heap) (ref : Nat) : Option (Heap × Nat) :=
  (h[ref]?).map fun r => (h ++ [r], h.length)

/-- `add_record(record, …)` at the aliasing level: the converter keeps *the caller's object* when
it appends, and assigns to *its own* matched object when it merges (api.py:920-949) -/
def addRecordH (fold : Str → Str) (h : Heap) (c : HConv) (rnew : Nat) (cs merge : Bool) :
    Except Err (Heap × HConv) :=
  match c.view h, h[rnew]? with
  | some cv, some r =>
    match cv.matchedKeys fold r cs with
    | [] =>
      let cv' := Conv.indexRec cv r
      .ok (h, HConv.ofConv cv' (c.refs ++ [rnew]))
    | [key] =>
      if !merge then .error .valueError
      else match cv.records.findIdx? (fun x => x.key == key) with
        | none => .error .other
        | some j =>
          match c.refs[j]?, cv.records[j]? with
          | some ref, some existing =>
            let merged := r.mergeInto existing
            .ok (h.set ref merged, HConv.ofConv (Conv.indexRec cv merged) c.refs)
          | _, _ => .error .other
    | _ => .error .valueError
  | _, _ => .error .other

/-- `chain` after the repair: every record is copied before it is added -/
def chainH (fold : Str → Str) (h : Heap) (convs : List HConv) (cs : Bool) : Except Err (Heap × HConv) :=
  if convs.isEmpty then .error .valueError
  else (convs.flatMap (·.refs)).foldlM (fun (acc : Heap × HConv) ref =>
    match allocCopy acc.1 ref with
    | none => .error .other
    | some (h', cp) => addRecordH fold h' acc.2 cp cs true) (h, HConv.ofConv Conv.empty [])

/-- `chain` before the repair: the inputs' own objects are added -/
def chainPinnedH (fold : Str → Str) (h : Heap) (convs : List HConv) (cs : Bool) : Except Err (Heap × HConv) :=
  if convs.isEmpty then .error .valueError
  else (convs.flatMap (·.refs)).foldlM (fun (acc : Heap × HConv) ref =>
    addRecordH fold acc.1 acc.2 ref cs true) (h, HConv.ofConv Conv.empty [])

/-- the other derivations after the repair: they copy the input's records on entry, work on the
copies (in place) and build a new converter that holds those copies.  `f` is the value-level
function (`getSubconverter`, `remapCuriePrefixes`, `remapUriPrefixes`, `rewire`); `discover`
reads the input only and creates new records. -/
def deriveByCopyH (h : Heap) (c : HConv) (f : Conv → Except Err Conv) : Except Err (Heap × HConv) :=
  match c.view h with
  | none => .error .other
  | some cv =>
    match f cv with
    | .error e => .error e
    | .ok cv' =>
      .ok (h ++ cv'.records, HConv.ofConv cv' ((List.range cv'.records.length).map (· + h.length)))
