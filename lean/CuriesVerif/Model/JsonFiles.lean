import CuriesVerif.Model.Json
import CuriesVerif.Model.Writers

/-!
# The JSON files the library writes, as text

`write_extended_prefix_map` (api.py:2672-2683): `json.dumps([_record_to_dict(r) ...], indent=4, sort_keys=True,
ensure_ascii=False)`; `write_jsonld_context` (api.py:2720-2789): `json.dump({"@context": {...}}, file, indent=4,
sort_keys=True)`.  The five keys of a record dictionary are written in `sort_keys` order.  Reading is
`json.load` followed by `Record(**dict)` resp. the `@context` walk of `from_jsonld`.
-/

namespace JsonFiles
open JsonText Writers

def kPattern : Str := [112, 97, 116, 116, 101, 114, 110]
def kPrefix : Str := [112, 114, 101, 102, 105, 120]
def kPSyn : Str := [112, 114, 101, 102, 105, 120, 95, 115, 121, 110, 111, 110, 121, 109, 115]
def kUri : Str := [117, 114, 105, 95, 112, 114, 101, 102, 105, 120]
def kUSyn : Str := [117, 114, 105, 95, 112, 114, 101, 102, 105, 120, 95, 115, 121, 110, 111, 110, 121, 109, 115]
def kContext : Str := [64, 99, 111, 110, 116, 101, 120, 116]
def kId : Str := [64, 105, 100]
def kAtPrefix : Str := [64, 112, 114, 101, 102, 105, 120]

def optMember (k : Str) (v : Option JV) : List (Str × JV) :=
  match v with
  | some x => [(k, x)]
  | none => []

/-- the JSON object of one record dictionary; `sort_keys=True` puts the keys in this order -/
def dictValue (d : RecordDict) : JV :=
  .obj (optMember kPattern (d.pattern.map .str) ++ ((kPrefix, .str d.pfx) ::
    (optMember kPSyn (d.pSyn.map fun l => .arr (l.map .str)) ++ ((kUri, .str d.uri) ::
      optMember kUSyn (d.uSyn.map fun l => .arr (l.map .str))))))

def epmValue (recs : List Record) : JV := .arr (recs.map fun r => dictValue (recordToDict r))

/-- the text `write_extended_prefix_map` writes -/
def epmText (recs : List Record) : Str := render ⟨some 4, false⟩ 0 (epmValue recs)

/-- `dict[key]` on a parsed object (a repeated key: the last value) -/
def lookup (kvs : List (Str × JV)) (k : Str) : Option JV := (kvs.reverse.find? fun kv => kv.1 == k).map (·.2)

def asStr : JV → Option Str
  | .str s => some s
  | _ => none

def asStrList : JV → Option (List Str)
  | .arr xs => xs.mapM asStr
  | _ => none

/-- an optional field: absent, or present with a value of the right shape -/
def optField {α} (kvs : List (Str × JV)) (k : Str) (f : JV → Option α) : Option (Option α) :=
  match lookup kvs k with
  | none => some none
  | some v => (f v).map some

/-- one element of an extended prefix map as `Record(**dict)` needs it: `prefix` and `uri_prefix` are strings, the
synonym fields lists of strings, the pattern a string -/
def dictOfValue : JV → Option RecordDict
  | .obj kvs =>
    match lookup kvs kPrefix, lookup kvs kUri, optField kvs kPSyn asStrList, optField kvs kUSyn asStrList,
      optField kvs kPattern asStr with
    | some (.str p), some (.str u), some ps, some us, some pat => some ⟨p, u, ps, us, pat⟩
    | _, _, _, _, _ => none
  | _ => none

/-- `json.load` of an extended prefix map file, element by element -/
def epmRead (text : Str) : Option (List RecordDict) :=
  match parse text with
  | some (.arr xs) => xs.mapM dictOfValue
  | _ => none

/-! ### JSON-LD -/

def termValue : Loaders.JTerm → JV
  | .str u => .str u
  | .prefixDict (some u) => .obj [(kId, .str u), (kAtPrefix, .bool true)]
  | .prefixDict none => .obj [(kAtPrefix, .bool true)]
  | .other => .null

/-- `{"@context": {...}}` with the terms in the given order (`sort_keys=True` sorts them by key before writing) -/
def jsonldValue (ctx : List (Str × Loaders.JTerm)) : JV :=
  .obj [(kContext, .obj (ctx.map fun kv => (kv.1, termValue kv.2)))]

/-- the text `write_jsonld_context` writes for a context whose terms are in `sort_keys` order -/
def jsonldText (ctx : List (Str × Loaders.JTerm)) : Str := render ⟨some 4, true⟩ 0 (jsonldValue ctx)

/-- what `from_jsonld` sees of one term -/
def termOfValue : JV → Loaders.JTerm
  | .str u => .str u
  | .obj m =>
    match lookup m kAtPrefix with
    | some (.bool true) => .prefixDict ((lookup m kId).bind asStr)
    | _ => .other
  | _ => .other

/-- `json.load` of a JSON-LD file followed by `data["@context"].items()` -/
def jsonldRead (text : Str) : Option (List (Str × Loaders.JTerm)) :=
  match parse text with
  | some (.obj kvs) =>
    match lookup kvs kContext with
    | some (.obj terms) => some (terms.map fun kv => (kv.1, termOfValue kv.2))
    | _ => none
  | _ => none

end JsonFiles
