import CuriesVerif.Basic

/-!
# Text-level model of the JSON the library writes and reads

`write_extended_prefix_map` writes `json.dumps(records, indent=4, sort_keys=True, ensure_ascii=False)`,
`write_jsonld_context` writes `json.dump(obj, file, indent=4, sort_keys=True)` (so `ensure_ascii=True`), and every
loader reads with `json.load` / `json.loads`.  This file models both directions on the *text*:

* `render cfg level v` — CPython's `json.encoder` (`_make_iterencode`, `py_encode_basestring(_ascii)`): the two
  escaping modes, the separators with and without `indent`, the newline-and-indent layout, `[]` / `{}` for empty
  containers;
* `parse` — CPython's `json.decoder` / `json.scanner` (`scanstring` in strict mode, `JSONObject`, `JSONArray`,
  `raw_decode` followed by the "Extra data" check): whitespace is ` \t\n\r`, control characters are illegal inside
  strings, `\uXXXX` escapes with upper- or lower-case hex digits, a high surrogate escape followed by a low surrogate
  escape is one code point.

Values are the ones the library writes: `null`, `true` / `false`, strings, arrays, objects.  **Numbers are not
modelled** (the library writes none): `parse` answers `none` for them, and the harness leaves number-bearing documents
out of the comparison.  Objects are association lists in document order; `JV.dedup` applies Python's `dict` semantics
(a repeated key keeps its first position and takes the last value).

The model is validated against the real `json` module on every run of C13 / C14, in both directions: text the library
wrote → `parse` = what `json.loads` gives, and `render` of a value → `json.loads` gives the value back and
`json.dumps` writes the same text.
-/

namespace JsonText

inductive JV where
  | null
  | bool (b : Bool)
  | str (s : Str)
  | arr (xs : List JV)
  | obj (kvs : List (Str × JV))
deriving Repr, Inhabited

structure Cfg where
  /-- `indent=` of `json.dumps` (a non-negative integer or `None`) -/
  indent : Option Nat
  /-- `ensure_ascii=` -/
  ascii : Bool
deriving Repr

/-! ## Writing -/

/-- lower-case hexadecimal digit -/
def hexDigit (d : Nat) : Nat := if d < 10 then 48 + d else 87 + d

def hex4 (n : Nat) : Str := [hexDigit (n / 4096 % 16), hexDigit (n / 256 % 16), hexDigit (n / 16 % 16), hexDigit (n % 16)]

/-- `\uXXXX` -/
def uEsc (n : Nat) : Str := 92 :: 117 :: hex4 n

/-- one character of a string literal: `ESCAPE` / `ESCAPE_ASCII` of `json.encoder` -/
def escChar (ascii : Bool) (c : Nat) : Str :=
  if c = 34 then [92, 34] else if c = 92 then [92, 92]
  else if c = 10 then [92, 110] else if c = 13 then [92, 114] else if c = 9 then [92, 116]
  else if c = 8 then [92, 98] else if c = 12 then [92, 102]
  else if c < 32 then uEsc c
  else if ascii = true ∧ 126 < c then
    (if c < 65536 then uEsc c else uEsc (55296 + (c - 65536) / 1024) ++ uEsc (56320 + (c - 65536) % 1024))
  else [c]

def escBody (ascii : Bool) (s : Str) : Str := s.flatMap (escChar ascii)

def renderStr (ascii : Bool) (s : Str) : Str := 34 :: (escBody ascii s ++ [34])

/-- `newline_indent` at a nesting level (`None` without `indent`) -/
def nl (cfg : Cfg) (level : Nat) : Str :=
  match cfg.indent with
  | none => []
  | some k => 10 :: List.replicate (k * level) 32

/-- `item_separator` followed by `newline_indent`: `", "` without `indent`, `","` + newline + indentation with -/
def itemSep (cfg : Cfg) (level : Nat) : Str :=
  match cfg.indent with
  | none => [44, 32]
  | some _ => 44 :: nl cfg level

/-- `key_separator` -/
def keySep : Str := [58, 32]

mutual
/-- `json.dumps(v, indent=cfg.indent, ensure_ascii=cfg.ascii)` at nesting level `level` -/
def render (cfg : Cfg) (level : Nat) : JV → Str
  | .null => [110, 117, 108, 108]
  | .bool true => [116, 114, 117, 101]
  | .bool false => [102, 97, 108, 115, 101]
  | .str s => renderStr cfg.ascii s
  | .arr [] => [91, 93]
  | .arr (x :: xs) =>
    91 :: (nl cfg (level + 1) ++ (render cfg (level + 1) x ++ (renderElems cfg (level + 1) xs ++ (nl cfg level ++ [93]))))
  | .obj [] => [123, 125]
  | .obj ((k, v) :: kvs) =>
    123 :: (nl cfg (level + 1) ++ (renderStr cfg.ascii k ++ (keySep ++ (render cfg (level + 1) v ++
      (renderMembers cfg (level + 1) kvs ++ (nl cfg level ++ [125]))))))
def renderElems (cfg : Cfg) (level : Nat) : List JV → Str
  | [] => []
  | x :: xs => itemSep cfg level ++ (render cfg level x ++ renderElems cfg level xs)
def renderMembers (cfg : Cfg) (level : Nat) : List (Str × JV) → Str
  | [] => []
  | (k, v) :: kvs =>
    itemSep cfg level ++ (renderStr cfg.ascii k ++ (keySep ++ (render cfg level v ++ renderMembers cfg level kvs)))
end

/-! ## Reading -/

def isWs (c : Nat) : Bool := c == 32 || c == 9 || c == 10 || c == 13

def skipWs : Str → Str
  | [] => []
  | c :: t => if isWs c then skipWs t else c :: t

def hexVal (c : Nat) : Option Nat :=
  if 48 ≤ c ∧ c ≤ 57 then some (c - 48)
  else if 97 ≤ c ∧ c ≤ 102 then some (c - 87)
  else if 65 ≤ c ∧ c ≤ 70 then some (c - 55)
  else none

def parseHex4 : Str → Option (Nat × Str)
  | a :: b :: c :: d :: t =>
    match hexVal a, hexVal b, hexVal c, hexVal d with
    | some a, some b, some c, some d => some (a * 4096 + b * 256 + c * 16 + d, t)
    | _, _, _, _ => none
  | _ => none

/-- `BACKSLASH` of `json.decoder` -/
def unesc (e : Nat) : Option Nat :=
  if e = 34 then some 34 else if e = 92 then some 92 else if e = 47 then some 47
  else if e = 98 then some 8 else if e = 102 then some 12 else if e = 110 then some 10
  else if e = 114 then some 13 else if e = 116 then some 9 else none

/-- `scanstring(s, end, strict=True)` from just after the opening quote: the decoded string and the rest of the
input after the closing quote.  `fuel` bounds the number of steps (the length of the input suffices). -/
def strBody : Nat → Str → Option (Str × Str)
  | 0, _ => none
  | _ + 1, [] => none
  | n + 1, c :: t =>
    if c = 34 then some ([], t)
    else if c = 92 then
      match t with
      | [] => none
      | e :: t' =>
        if e = 117 then
          match parseHex4 t' with
          | none => none
          | some (u, t1) =>
            if 55296 ≤ u ∧ u ≤ 56319 then
              match t1 with
              | 92 :: 117 :: t2 =>
                match parseHex4 t2 with
                | none => none
                | some (u2, t3) =>
                  if 56320 ≤ u2 ∧ u2 ≤ 57343 then
                    (strBody n t3).map fun (s, r) => ((65536 + ((u - 55296) * 1024 + (u2 - 56320))) :: s, r)
                  else (strBody n t1).map fun (s, r) => (u :: s, r)
              | _ => (strBody n t1).map fun (s, r) => (u :: s, r)
            else (strBody n t1).map fun (s, r) => (u :: s, r)
        else
          match unesc e with
          | none => none
          | some x => (strBody n t').map fun (s, r) => (x :: s, r)
    else if c < 32 then none
    else (strBody n t).map fun (s, r) => (c :: s, r)

mutual
/-- `scan_once` at a position where whitespace has been skipped: the value and the rest of the input -/
def parseValue : Nat → Str → Option (JV × Str)
  | 0, _ => none
  | _ + 1, [] => none
  | n + 1, c :: t =>
    if c = 34 then (strBody (t.length + 1) t).map fun (s, r) => (.str s, r)
    else if c = 91 then
      match skipWs t with
      | [] => none
      | d :: r => if d = 93 then some (.arr [], r) else (parseElems n (d :: r)).map fun (xs, r') => (.arr xs, r')
    else if c = 123 then
      match skipWs t with
      | [] => none
      | d :: r => if d = 125 then some (.obj [], r) else (parseMembers n (d :: r)).map fun (kvs, r') => (.obj kvs, r')
    else if c = 110 then
      match t with
      | 117 :: 108 :: 108 :: r => some (.null, r)
      | _ => none
    else if c = 116 then
      match t with
      | 114 :: 117 :: 101 :: r => some (.bool true, r)
      | _ => none
    else if c = 102 then
      match t with
      | 97 :: 108 :: 115 :: 101 :: r => some (.bool false, r)
      | _ => none
    else none
/-- the elements of a non-empty array, from the first element on (`JSONArray`) -/
def parseElems : Nat → Str → Option (List JV × Str)
  | 0, _ => none
  | n + 1, inp =>
    match parseValue n inp with
    | none => none
    | some (v, r) =>
      match skipWs r with
      | [] => none
      | d :: r' =>
        if d = 44 then (parseElems n (skipWs r')).map fun (vs, r'') => (v :: vs, r'')
        else if d = 93 then some ([v], r')
        else none
/-- the members of a non-empty object, from the first key on (`JSONObject`) -/
def parseMembers : Nat → Str → Option (List (Str × JV) × Str)
  | 0, _ => none
  | _ + 1, [] => none
  | n + 1, c :: t =>
    if c = 34 then
      match strBody (t.length + 1) t with
      | none => none
      | some (k, r) =>
        match skipWs r with
        | [] => none
        | d :: r1 =>
          if d = 58 then
            match parseValue n (skipWs r1) with
            | none => none
            | some (v, r2) =>
              match skipWs r2 with
              | [] => none
              | d' :: r3 =>
                if d' = 44 then (parseMembers n (skipWs r3)).map fun (kvs, r4) => ((k, v) :: kvs, r4)
                else if d' = 125 then some ([(k, v)], r3)
                else none
          else none
    else none
end

/-- `json.loads(text)`: one value, surrounded by optional whitespace, nothing else -/
def parse (inp : Str) : Option JV :=
  match parseValue (inp.length + 1) (skipWs inp) with
  | none => none
  | some (v, r) => if skipWs r = [] then some v else none

/-! ## Python `dict` semantics and `sort_keys` -/

/-- a repeated key keeps its first position and takes the last value -/
def dedupPairs {β} (l : List (Str × β)) : List (Str × β) :=
  l.foldl (fun acc kv =>
    if acc.any (fun x => x.1 == kv.1) then acc.map (fun x => if x.1 == kv.1 then (x.1, kv.2) else x)
    else acc ++ [kv]) []

mutual
/-- what `json.loads` hands to Python: every object is a `dict` -/
def JV.dedup : JV → JV
  | .arr xs => .arr (dedupList xs)
  | .obj kvs => .obj (dedupPairs (dedupMembers kvs))
  | v => v
def dedupList : List JV → List JV
  | [] => []
  | x :: xs => x.dedup :: dedupList xs
def dedupMembers : List (Str × JV) → List (Str × JV)
  | [] => []
  | (k, v) :: kvs => (k, v.dedup) :: dedupMembers kvs
end

/-- `sorted(dict.items())` by key: strings compare by code point, lexicographically; the sort is stable (keys of a
`dict` are distinct anyway) -/
def sortPairs {β} (l : List (Str × β)) : List (Str × β) := isort (fun a b => strLe a.1 b.1) l

mutual
/-- what `sort_keys=True` writes: every object's members ordered by key, at every depth -/
def JV.sortKeys : JV → JV
  | .arr xs => .arr (sortKeysList xs)
  | .obj kvs => .obj (sortPairs (sortKeysMembers kvs))
  | v => v
def sortKeysList : List JV → List JV
  | [] => []
  | x :: xs => x.sortKeys :: sortKeysList xs
def sortKeysMembers : List (Str × JV) → List (Str × JV)
  | [] => []
  | (k, v) :: kvs => (k, v.sortKeys) :: sortKeysMembers kvs
end

end JsonText
