import CuriesVerif.Model.Converter

/-!
# Model of the mapping service (mapping_service/api.py, utils.py, after the repair F8)

`validIri : Str → Bool` stands for rdflib's `_is_valid_uri`; the media-type tables are
parameters (read from the live module by the harness).  q-values are thousandths.
-/

namespace Mapping

/-- `MappingServiceGraph._expand_pair_all` -/
def expandPairAllValid (validIri : Str → Bool) (c : Conv) (u : Str) : List Str :=
  match c.parseUri u false with
  | .ok (some (p, i)) =>
    match c.expandPairAll p i true with
    | .ok (some l) => l.filter validIri
    | _ => []
  | _ => []

/-- `MappingServiceGraph.triples` for a bound subject (or, symmetrically, a bound object): the
other side's answers; nothing for predicates that are not configured -/
def answers (validIri : Str → Bool) (c : Conv) (predConfigured : Bool) (u : Str) : List Str :=
  if predConfigured then expandPairAllValid validIri c u else []

/-- one part of an Accept header after `_handle_part`: media type and q (thousandths) -/
abbrev Part := Str × Nat

/-- `parse_header`: `dict(...)` keeps the first position and the last q of a repeated media type;
then sort by q, descending, stable -/
def parseHeader (parts : List Part) : List Str :=
  let dict : List Part := parts.foldl (fun acc p =>
    if acc.any (fun x => x.1 == p.1) then acc.map (fun x => if x.1 == p.1 then (x.1, p.2) else x)
    else acc ++ [p]) []
  (isort (fun (a b : Part) => decide (b.2 ≤ a.2)) dict).map (·.1)

/-- `handle_header(header, default)` -/
def handleHeader (synonyms : List (Str × Str)) (supported : List Str) (dflt : Str) (parts : Option (List Part)) : Str :=
  match parts with
  | none => dflt                                   -- header absent or empty
  | some ps =>
    match (parseHeader ps).findSome? (fun t =>
      let t' := (Dict.get synonyms t).getD t
      if supported.contains t' then some t' else none) with
    | some t => t
    | none => dflt

end Mapping
