import CuriesVerif.Basic

/-!
# Model of `curies.api.Record` and `curies.api.Converter` (construction and queries)

Shaped like the Python: the five lookup structures are separate fields that `__init__` builds
with five separate functions and `_index` updates with separate statements; every public
method has its `strict` / `passthrough` tail.  Line references are to `/repo/src/curies/api.py`.
-/

structure Record where
  pfx : Str
  uri : Str
  pSyn : List Str := []
  uSyn : List Str := []
  pattern : Option Str := none
deriving DecidableEq, Repr, Inhabited

namespace Record
/-- `Record._all_prefixes` -/
def allP (r : Record) : List Str := r.pfx :: r.pSyn
/-- `Record._all_uri_prefixes` -/
def allU (r : Record) : List Str := r.uri :: r.uSyn
/-- the two pydantic field validators (`prefix_not_in_synonyms`, `uri_prefix_not_in_synonyms`) -/
def validate (r : Record) : Except Err Record :=
  if r.pSyn.contains r.pfx then .error .validation
  else if r.uSyn.contains r.uri then .error .validation
  else .ok r
/-- `if record.pattern` : a pattern that is neither `None` nor empty -/
def truePattern (r : Record) : Option Str :=
  match r.pattern with
  | some p => if p.isEmpty then none else some p
  | none => none
end Record

/-- `itertools.combinations(xs, 2)` -/
def combinations2 {α} : List α → List (α × α)
  | [] => []
  | a :: as => as.map (fun b => (a, b)) ++ combinations2 as

/-- `_get_duplicate_uri_prefixes` / `_get_duplicate_prefixes` (api.py:739-754), for the projection
`f = allU` resp. `allP`: for each unordered pair of positions, each equal pair in the product. -/
def duplicates (f : Record → List Str) (recs : List Record) : List (Record × Record × Str) :=
  (combinations2 recs).flatMap fun (r1, r2) =>
    (f r1).flatMap fun x => (f r2).filterMap fun y => if x == y then some (r1, r2, x) else none

/-- `_get_prefix_map` -/
def getPrefixMap (recs : List Record) : Dict Str :=
  recs.foldl (fun d r => Dict.setAll (Dict.set d r.pfx r.uri) r.pSyn r.uri) []
/-- `_get_prefix_synmap` -/
def getPrefixSynmap (recs : List Record) : Dict Str :=
  recs.foldl (fun d r => Dict.setAll (Dict.set d r.pfx r.pfx) r.pSyn r.pfx) []
/-- `_get_reverse_prefix_map` -/
def getReversePrefixMap (recs : List Record) : Dict Str :=
  recs.foldl (fun d r => Dict.setAll (Dict.set d r.uri r.pfx) r.uSyn r.pfx) []
/-- `_get_pattern_map` -/
def patSet (d : Dict Str) (r : Record) : Dict Str :=
  match r.truePattern with
  | some p => Dict.set d r.pfx p
  | none => d
def getPatternMap (recs : List Record) : Dict Str := recs.foldl patSet []

/-- The seven attributes set by `Converter.__init__`. -/
structure Conv where
  delim : Str
  records : List Record
  prefixMap : Dict Str
  synToPrefix : Dict Str
  revMap : Dict Str
  trie : Dict Str
  patMap : Dict Str
deriving Repr, Inhabited

/-- `sorted(records, key=lambda r: r.prefix)` (stable) -/
def sortRecords (recs : List Record) : List Record :=
  isort (fun a b => strLe a.pfx b.pfx) recs

namespace Conv

/-- the attribute assignments of `__init__` (api.py:871-877) for already sorted records;
`StringTrie(self.reverse_prefix_map)` copies the reverse map. -/
def build (delim : Str) (recs : List Record) : Conv :=
  let rev := getReversePrefixMap recs
  { delim := delim, records := recs, prefixMap := getPrefixMap recs,
    synToPrefix := getPrefixSynmap recs, revMap := rev, trie := rev,
    patMap := getPatternMap recs }

/-- `Converter(records, delimiter=..., strict=...)` (api.py:848-877) -/
def init? (recs : List Record) (delim : Str := [58]) (strict : Bool := true) : Except Err Conv :=
  let recs := sortRecords recs
  if strict && !(duplicates Record.allU recs).isEmpty then .error .dupUri
  else if strict && !(duplicates Record.allP recs).isEmpty then .error .dupPrefix
  else .ok (build delim recs)

/-- `bimap` / `reverse_bimap` as dicts built in record order -/
def bimap (c : Conv) : Dict Str := c.records.foldl (fun d r => Dict.set d r.pfx r.uri) []
def reverseBimap (c : Conv) : Dict Str := c.records.foldl (fun d r => Dict.set d r.uri r.pfx) []

/-- `get_prefixes(include_synonyms=...)` as a list (observed as a set) -/
def getPrefixes (c : Conv) (syn : Bool) : List Str :=
  c.records.map (·.pfx) ++ (if syn then c.records.flatMap (·.pSyn) else [])
def getUriPrefixes (c : Conv) (syn : Bool) : List Str :=
  c.records.map (·.uri) ++ (if syn then c.records.flatMap (·.uSyn) else [])

/-- `format_curie` -/
def formatCurie (c : Conv) (p i : Str) : Str := p ++ c.delim ++ i

/-- Contract of `StringTrie.longest_prefix_item(u)`: the longest key that is a prefix of `u`
(with its value), `none` standing for `KeyError`.  Tries `u[:n]` for `n = len(u) … 0`. -/
def lpiAux (t : Dict Str) (u : Str) : Nat → Option (Str × Str)
  | 0 => (Dict.get t []).map fun v => ([], v)
  | n + 1 =>
    match Dict.get t (u.take (n + 1)) with
    | some v => some (u.take (n + 1), v)
    | none => lpiAux t u n
def lpi (t : Dict Str) (u : Str) : Option (Str × Str) := lpiAux t u u.length

/-- the shared tail `if strict: raise e; if passthrough: return x; return None` -/
def modeTail (strict passthrough : Bool) (e : Err) (x : Str) : Except Err (Option Str) :=
  if strict then .error e else if passthrough then .ok (some x) else .ok none

/-- `parse_uri(u, strict=…, return_none=True)` (api.py:1615-1655) -/
def parseUri (c : Conv) (u : Str) (strict : Bool := false) : Except Err (Option (Str × Str)) :=
  match lpi c.trie u with
  | some (k, p) => .ok (some (p, u.drop k.length))
  | none => if strict then .error .compression else .ok none

/-- `compress` (api.py:1547-1591) -/
def compress (c : Conv) (u : Str) (strict passthrough : Bool := false) : Except Err (Option Str) :=
  match parseUri c u false with
  | .ok (some (p, i)) => .ok (some (c.formatCurie p i))
  | _ => modeTail strict passthrough .compression u

/-- `is_uri` -/
def isUri (c : Conv) (s : Str) : Bool :=
  match compress c s with
  | .ok (some _) => true
  | _ => false

/-- `_split(curie, sep=delimiter)` (api.py:80-84); `str.partition("")` raises a plain ValueError -/
def split (d s : Str) : Except Err (Str × Str) :=
  if d.isEmpty then .error .valueError
  else match partition? d s with
    | some x => .ok x
    | none => .error .noDelimiter

/-- `standardize_prefix` (api.py:2015-2053), after the repair `if rv is not None` -/
def standardizePrefix (c : Conv) (p : Str) (strict passthrough : Bool := false) :
    Except Err (Option Str) :=
  match Dict.get c.synToPrefix p with
  | some rv => .ok (some rv)
  | none => modeTail strict passthrough .prefixStd p

/-- `parse_curie` (api.py:1871-1884), after the repair that returns `None` for delimiter-free
input unless `strict`; `standardize_identifier` is the identity. -/
def parseCurie (c : Conv) (s : Str) (strict : Bool := false) : Except Err (Option (Str × Str)) :=
  match split c.delim s with
  | .error .noDelimiter => if strict then .error .noDelimiter else .ok none
  | .error e => .error e
  | .ok (p, i) =>
    match Dict.get c.synToPrefix p with
    | none => if strict then .error .prefixStd else .ok none
    | some np => .ok (some (np, i))

/-- `expand_reference` (api.py:1901-1912) -/
def expandReference (c : Conv) (r : Str × Str) (strict passthrough : Bool := false) :
    Except Err (Option Str) :=
  match Dict.get c.prefixMap r.1 with
  | some u => .ok (some (u ++ r.2))
  | none =>
    if strict then .error .expansion
    else if passthrough then .ok (some (c.formatCurie r.1 r.2)) else .ok none

/-- `expand_pair` -/
def expandPair (c : Conv) (p i : Str) (strict passthrough : Bool := false) : Except Err (Option Str) :=
  expandReference c (p, i) strict passthrough

/-- `expand` (api.py:1783-1816) -/
def expand (c : Conv) (s : Str) (strict passthrough : Bool := false) : Except Err (Option Str) :=
  match parseCurie c s false with
  | .error e => .error e
  | .ok (some r) => expandReference c r strict passthrough
  | .ok none => modeTail strict passthrough .expansion s

/-- `get_record(prefix)` non-strict (api.py:2394-2402) -/
def getRecord (c : Conv) (p : Str) : Option Record :=
  c.records.find? fun r => r.pfx == p || r.pSyn.contains p

/-- `expand_pair_all` (api.py:1957-1995) -/
def expandPairAll (c : Conv) (p i : Str) (strict : Bool := false) : Except Err (Option (List Str)) :=
  match getRecord c p with
  | some r => .ok (some ((r.uri ++ i) :: r.uSyn.map (· ++ i)))
  | none => if strict then .error .expansion else .ok none

/-- `expand_all` (api.py:1828-1859) -/
def expandAll (c : Conv) (s : Str) (strict : Bool := false) : Except Err (Option (List Str)) :=
  match parseCurie c s false with
  | .error e => .error e
  | .ok (some (p, i)) => expandPairAll c p i false
  | .ok none => if strict then .error .prefixStd else .ok none

/-- `is_curie`: `try: return self.expand(s) is not None / except ValueError: return False` -/
def isCurie (c : Conv) (s : Str) : Bool :=
  match expand c s with
  | .ok (some _) => true
  | _ => false

/-- `parse(s, strict=…)` (api.py:1509-1523): URIs take precedence -/
def parse (c : Conv) (s : Str) (strict : Bool) : Except Err (Option (Str × Str)) :=
  if isUri c s then parseUri c s strict
  else if isCurie c s then parseCurie c s strict
  else if strict then .error .compression else .ok none

/-- `compress_or_standardize` (api.py:1451-1499) -/
def compressOrStandardize (c : Conv) (s : Str) (strict passthrough : Bool := false) :
    Except Err (Option Str) :=
  match parse c s false with
  | .error e => .error e
  | .ok (some (p, i)) => .ok (some (c.formatCurie p i))
  | .ok none => modeTail strict passthrough .compression s

/-- `expand_or_standardize` (api.py:1711-1759) -/
def expandOrStandardize (c : Conv) (s : Str) (strict passthrough : Bool := false) :
    Except Err (Option Str) :=
  match parse c s false with
  | .error e => .error e
  | .ok (some r) => expandReference c r strict passthrough
  | .ok none => modeTail strict passthrough .expansion s

/-- `standardize_curie` (api.py:2073-2117) -/
def standardizeCurie (c : Conv) (s : Str) (strict passthrough : Bool := false) :
    Except Err (Option Str) :=
  match parseCurie c s false with
  | .error e => .error e
  | .ok (some (p, i)) => .ok (some (c.formatCurie p i))
  | .ok none => modeTail strict passthrough .curieStd s

/-- `standardize_uri` (api.py:2137-2186); `self.prefix_map[reference.prefix]` may raise KeyError -/
def standardizeUri (c : Conv) (u : Str) (strict passthrough : Bool := false) :
    Except Err (Option Str) :=
  match parseUri c u false with
  | .ok (some (p, i)) =>
    match Dict.get c.prefixMap p with
    | some up => .ok (some (up ++ i))
    | none => .error .keyError
  | _ => modeTail strict passthrough .uriStd u

def compressStrict (c : Conv) (u : Str) : Except Err (Option Str) := compress c u true false
def expandStrict (c : Conv) (s : Str) : Except Err (Option Str) := expand c s true false

end Conv
