import CuriesVerif.Model.Converter

/-!
# Model of the reference classes (api.py:80-581) and of triple rows (triples.py)

`ReferenceTuple` is a plain named tuple; `Reference`, `NamableReference`, `NamedReference` are
frozen pydantic models that compare and hash on `(prefix, identifier)` only.
-/

inductive RefClass where
  | tuple | reference | namable | named
deriving DecidableEq, Repr, Inhabited

structure Ref where
  cls : RefClass
  pfx : Str
  ident : Str
  name : Option Str := none
deriving DecidableEq, Repr, Inhabited

namespace Ref

def isPydantic (r : Ref) : Bool := r.cls != .tuple

/-- `.curie`: always joined with `":"` -/
def curie (r : Ref) : Str := r.pfx ++ [58] ++ r.ident

/-- `cls.from_curie(curie, name, sep=":", converter=…)`: split at the first separator; with a
converter as validation context the prefix is standardised through it (strict), and an unknown
prefix is a validation error (pydantic wraps the `ValueError`). `NamedReference` needs a name. -/
def fromCurie (cls : RefClass) (s : Str) (name : Option Str := none) (conv : Option Conv := none) :
    Except Err Ref :=
  match Conv.split [58] s with
  | .error e => .error e
  | .ok (p, i) =>
    if cls == .named && name.isNone then .error .validation
    else
      let nm := if cls == .tuple || cls == .reference then none else name
      match conv with
      | some c =>
        if cls == .tuple then .ok { cls, pfx := p, ident := i, name := nm }   -- tuples are not validated
        else match Dict.get c.synToPrefix p with
          | some q => .ok { cls, pfx := q, ident := i, name := nm }
          | none => .error .validation
      | none => .ok { cls, pfx := p, ident := i, name := nm }

/-- `cls.from_reference(reference, converter=…)` for the three pydantic classes: the pair (and, for the
named classes, the name of a namable argument) is validated again, with the converter as context;
`NamedReference.from_reference` of an argument without a name field is a `TypeError` -/
def fromReference (cls : RefClass) (r : Ref) (conv : Option Conv := none) : Except Err Ref :=
  let namable := r.cls == .namable || r.cls == .named
  if cls == .named && !namable then .error .typeError
  else
    let name := if namable then r.name else none
    if cls == .named && name.isNone then .error .validation
    else
      let nm := if cls == .tuple || cls == .reference then none else name
      match conv with
      | some c =>
        if cls == .tuple then .ok { cls, pfx := r.pfx, ident := r.ident, name := nm }
        else match Dict.get c.synToPrefix r.pfx with
          | some q => .ok { cls, pfx := q, ident := r.ident, name := nm }
          | none => .error .validation
      | none => .ok { cls, pfx := r.pfx, ident := r.ident, name := nm }

/-- `a == b` -/
def eq (a b : Ref) : Bool :=
  if a.isPydantic && b.isPydantic then a.pfx == b.pfx && a.ident == b.ident
  else if !a.isPydantic && !b.isPydantic then a.pfx == b.pfx && a.ident == b.ident
  else false

/-- what `hash()` is computed from: the pair, for all four classes -/
def hashKey (r : Ref) : Str × Str := (r.pfx, r.ident)

/-- `a < b`: lexicographic on `(prefix, identifier)` -/
def lt (a b : Ref) : Bool := strLt a.pfx b.pfx || (a.pfx == b.pfx && strLt a.ident b.ident)

end Ref
