import CuriesVerif.Basic

/-!
# Structural model of `pytrie.StringTrie` as the library uses it

The library builds `StringTrie(reverse_prefix_map)`, assigns `trie[uri_prefix] = prefix` in
`_index`, and asks `trie.longest_prefix_item(uri)`.  `pytrie` keeps one node per character with a
value slot and a `children` mapping; this file models exactly that — `__setitem__`, `_find` /
`__getitem__`, and the walk of `longest_prefix_item` with its running "longest value seen so far".
`Lemmas/Trie.lean` proves that it refines the abstract dictionary contract (`lpi`) the converter
model is written against; the model is compared with the real `StringTrie` on every run.
-/

inductive Trie where
  | node (value : Option Str) (children : Nat → Option Trie)

namespace Trie

/-- `Node()` : no value, no children -/
def empty : Trie := node none (fun _ => none)

def value : Trie → Option Str
  | node v _ => v

/-- `node.children.get(part)` -/
def child : Trie → Nat → Option Trie
  | node _ cs, c => cs c

/-- `trie[key] = value` (`__setitem__`): walk down creating nodes, set the value slot -/
def insert : Trie → Str → Str → Trie
  | node _ cs, [], v => node (some v) cs
  | node val cs, c :: k, v =>
    node val fun c' =>
      if c' = c then some (insert (match cs c with | some t' => t' | none => empty) k v) else cs c'

/-- `_find(key)` followed by reading the value slot (`__getitem__`, `None` for `KeyError`) -/
def get : Trie → Str → Option Str
  | t, [] => t.value
  | t, c :: k =>
    match t.child c with
    | some t' => get t' k
    | none => none

/-- the loop of `longest_prefix_item`: `i` characters consumed, `best` = length and value of the
longest prefix with a value seen so far -/
def lpiWalk : Trie → Str → Nat → Option (Nat × Str) → Option (Nat × Str)
  | _, [], _, best => best
  | t, c :: rest, i, best =>
    match t.child c with
    | none => best
    | some t' =>
      lpiWalk t' rest (i + 1) (match t'.value with | some v => some (i + 1, v) | none => best)

/-- `trie.longest_prefix_item(u)` (`none` for `KeyError`) -/
def lpi (t : Trie) (u : Str) : Option (Str × Str) :=
  (lpiWalk t u 0 (t.value.map fun v => (0, v))).map fun nv => (u.take nv.1, nv.2)

/-- `StringTrie(d)` followed by the assignments: the items in order -/
def ofList (kvs : List (Str × Str)) : Trie := kvs.foldl (fun t kv => t.insert kv.1 kv.2) empty

end Trie
