def hello := "world"
