/-!
# Core conventions of the model

* A Python `str` is a list of code points (`Str := List Nat`).  Equality, `<`, slicing,
  concatenation, `startswith`, `partition`, `rsplit` are list operations, and `sorted` on `str`
  is the lexicographic order on `List Nat` (Python compares code points).
* A Python `dict` that is only used through `get` / `in` / `d[k] = v` is an association list:
  `set` conses, `get` returns the first hit (so the last write wins).

This file contains definitions only (no Mathlib, no lemmas) so that the driver can import it.
-/

abbrev Str := List Nat

/-- Exceptions that escape the modelled code, abstracted to the class families the properties
distinguish. -/
inductive Err where
  | noDelimiter      -- NoCURIEDelimiterError (ValueError)
  | compression      -- CompressionError
  | expansion        -- ExpansionError
  | prefixStd        -- PrefixStandardizationError
  | identifierStd    -- IdentifierStandardizationError
  | curieStd         -- CURIEStandardizationError
  | uriStd           -- URIStandardizationError
  | valueError       -- a plain ValueError raised by the library (add_record, chain)
  | validation       -- pydantic ValidationError (a ValueError)
  | dupUri           -- DuplicateURIPrefixes
  | dupPrefix        -- DuplicatePrefixes
  | dupKeys | dupValues | inconsistent | cycle   -- reconciliation errors (ValueError)
  | transitive       -- TransitiveError (NotImplementedError)
  | keyError | indexError | typeError | other
deriving DecidableEq, Repr, Inhabited

namespace Err
/-- "one of the library's ValueError-derived conversion / standardisation errors" (C08). -/
def isLibraryValueError : Err → Bool
  | noDelimiter | compression | expansion | prefixStd | identifierStd | curieStd | uriStd => true
  | _ => false

def name : Err → String
  | noDelimiter => "noDelimiter" | compression => "compression" | expansion => "expansion"
  | prefixStd => "prefixStd" | identifierStd => "identifierStd" | curieStd => "curieStd"
  | uriStd => "uriStd" | valueError => "valueError" | validation => "validation"
  | dupUri => "dupUri" | dupPrefix => "dupPrefix" | dupKeys => "dupKeys"
  | dupValues => "dupValues" | inconsistent => "inconsistent" | cycle => "cycle"
  | transitive => "transitive" | keyError => "keyError" | indexError => "indexError"
  | typeError => "typeError" | other => "other"
end Err

abbrev Dict (β : Type) := List (Str × β)

namespace Dict
variable {β : Type}
/-- `d[k] = v`: last write wins. -/
def set (d : Dict β) (k : Str) (v : β) : Dict β := (k, v) :: d
/-- `d.get(k)` -/
def get (d : Dict β) (k : Str) : Option β := (d.find? (fun kv => kv.1 == k)).map (·.2)
/-- `k in d` -/
def has (d : Dict β) (k : Str) : Bool := (get d k).isSome
/-- The distinct keys, for observing a dict as a set of pairs. -/
def keys (d : Dict β) : List Str := (d.map (·.1)).eraseDups
/-- The dict as a duplicate-free list of `(key, current value)` pairs. -/
def items (d : Dict β) : List (Str × β) := (keys d).filterMap fun k => (get d k).map fun v => (k, v)
/-- set one value for a list of keys, in order -/
def setAll (d : Dict β) (ks : List Str) (v : β) : Dict β := ks.foldl (fun d k => set d k v) d
end Dict

/-- Python `a <= b` on strings. -/
def strLe (a b : Str) : Bool := decide (a ≤ b)
/-- Python `a < b` on strings. -/
def strLt (a b : Str) : Bool := decide (a < b)

/-- insert `x` before the first element it is `≤` to -/
def insertBy {α} (le : α → α → Bool) (x : α) : List α → List α
  | [] => [x]
  | y :: ys => if le x y then x :: y :: ys else y :: insertBy le x ys

/-- Stable insertion sort.  Python's `sorted` / `list.sort` is a stable sort, and the output of
a stable sort is determined by the input and the (total) preorder, so this is the same
function as Timsort; it is defined by structural recursion so that the kernel can evaluate it. -/
def isort {α} (le : α → α → Bool) : List α → List α
  | [] => []
  | x :: xs => insertBy le x (isort le xs)

/-- `sorted(xs)` for a list of strings -/
def sortStrs (xs : List Str) : List Str := isort (fun a b => strLe a b) xs

/-- Python `(a1, a2) <= (b1, b2)` on pairs of strings. -/
def pairLe (a b : Str × Str) : Bool := strLt a.1 b.1 || (a.1 == b.1 && strLe a.2 b.2)

/-- index of the first occurrence of `d` in `s` (Python `str.find`), `none` if absent. -/
def firstOcc (d : Str) : Str → Option Nat
  | [] => if d = [] then some 0 else none
  | c :: s => if d.isPrefixOf (c :: s) then some 0 else (firstOcc d s).map (· + 1)

/-- `sep in s` -/
def contains (s d : Str) : Bool := (firstOcc d s).isSome

/-- `s.partition(sep)` with the "separator not found" case made explicit.
(`sep = ""` raises `ValueError` in Python; callers guard that.) -/
def partition? (d s : Str) : Option (Str × Str) :=
  (firstOcc d s).map fun n => (s.take n, s.drop (n + d.length))

/-- index of the last occurrence of `d` in `s` (Python `str.rfind`). -/
def lastOcc (d : Str) : Str → Option Nat
  | [] => if d = [] then some 0 else none
  | c :: s =>
    match lastOcc d s with
    | some n => some (n + 1)
    | none => if d.isPrefixOf (c :: s) then some 0 else none

/-- `s.rsplit(sep, maxsplit=1)` when `sep in s`. -/
def rpartition? (d s : Str) : Option (Str × Str) :=
  (lastOcc d s).map fun n => (s.take n, s.drop (n + d.length))

/-- The delimiter `d` does not *start* inside `p` when `p` is followed by `d`.  For a one-symbol
delimiter this is `d ∉ p`; for longer delimiters it is strictly stronger than "`p` does not
contain `d`" (`p = "a:"`, `d = "::"`), and it is exactly the condition under which `partition`
recovers `p` from `p ++ d ++ i` (see `Lemmas/Basic.lean`). -/
def DelimOK (d p : Str) : Prop := ∀ i, i < p.length → ¬ d <+: (p ++ d).drop i

/-- executable version of `DelimOK` -/
def delimOK (d p : Str) : Bool := (List.range p.length).all fun i => !(d.isPrefixOf ((p ++ d).drop i))

/-- sequencing helper: Python `x or default` on optional strings is not used; this is
`Option.getD` spelled out to make totalisation explicit at call sites. -/
def orElse {α} (o : Option α) (d : α) : α := match o with | some a => a | none => d
