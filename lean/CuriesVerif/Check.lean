import CuriesVerif.Program
import CuriesVerif.Spec.Answer
import CuriesVerif.Spec.Reconcile
import CuriesVerif.Spec.Add

/-!
# Spec verdict on observed histories

`specCheck` walks a program together with the values *the implementation* returned and
evaluates, for every query whose converter's records and delimiter were observed since its
last mutation, the specification `Spec.answer` on those observed records.  It also checks the
one-owner uniqueness (C04) of every observed record list.  The result is the list of failures.
-/

namespace Val
/-- errors are compared up to the family the properties distinguish -/
def errFamily (e : Err) : Nat :=
  if e.isLibraryValueError then 0 else
  match e with
  | .valueError => 1 | .validation => 2 | .dupUri => 3 | .dupPrefix => 4 | .dupKeys => 5
  | .dupValues => 6 | .inconsistent => 7 | .cycle => 8 | .transitive => 9 | .keyError => 10
  | .indexError => 11 | .typeError => 12 | _ => 13

def same : Val → Val → Bool
  | .err a, .err b => errFamily a == errFamily b
  | a, b => a == b
end Val

/-- how a slot was derived from another one whose records had been observed -/
inductive Derivation where
  | remapCurie (before : List Record) (rm : List (Str × Str))
  | remapUri (before : List Record) (rm : List (Str × Str))
  | rewire (before : List Record) (rm : List (Str × Str))

structure SlotObs where
  slot : Nat
  recs : Option (List Record) := none
  delim : Option Str := none
  derived : Option Derivation := none
  /-- the records the slot's loader input denotes (C13) -/
  expect : Option (List Record) := none
  /-- for `from_reverse_prefix_map` any shortest URI prefix of a group may be canonical -/
  expectAnyShortest : Bool := false

abbrev SlotTable := List SlotObs

namespace SlotTable
def get (t : SlotTable) (i : Nat) : SlotObs :=
  match t.find? (·.slot == i) with
  | some o => o
  | none => { slot := i }
def put (t : SlotTable) (o : SlotObs) : SlotTable := o :: t.filter (·.slot != o.slot)
end SlotTable

def Step.target : Step → Option Nat
  | .init dst .. => some dst
  | .addRecord c .. => some c
  | .addPrefix c .. => some c
  | .chain dst .. => some dst
  | .sub dst .. => some dst
  | .query .. => none
  | .dups .. => none
  | .fresh dst .. => some dst
  | .clone dst .. => some dst
  | .discover dst .. => some dst
  | .roundtrip dst .. => some dst
  | .remapCurie dst .. => some dst
  | .remapUri dst .. => some dst
  | .rewire dst .. => some dst
  | .loadPm dst .. => some dst
  | .loadPriority dst .. => some dst
  | .loadReverse dst .. => some dst
  | .loadJsonld dst .. => some dst
  | .loadUpgrade dst .. => some dst
  | .upgrade .. => none

/-- split a listing entry `p1 ⟨sep⟩ p2 ⟨sep⟩ x` (separator 1114112 is not a code point) -/
def splitEntry (e : Str) : Option (Str × Str × Str) :=
  match e.splitOn 1114112 with
  | [a, b, x] => some (a, b, x)
  | _ => none

def checkInit (idx : Nat) (what : String) (recs : Except Err (List Record)) (strict : Bool) (obs : Val) : List String :=
  if !strict then [] else
  match recs with
  | .error e =>
    if Val.same (.err e) obs then [] else [s!"step {idx}: {what} should fail while building the records"]
  | .ok recs =>
    match Spec.expectedInit recs, obs with
    | none, .none => []
    | none, _ => [s!"step {idx}: {what} rejects a collection in which every prefix has one owner"]
    | some e, .err e' =>
      if Val.errFamily e == Val.errFamily e' then []
      else [s!"step {idx}: {what} raises {e'.name}, expected {e.name}"]
    | some e, _ => [s!"step {idx}: {what} accepts a collection that must be rejected with {e.name}"]

/-- a lookup attribute read as a dict must be, as a function, the one computed from the observed
records (C05: the derived structures mirror the records): every item is right and every key the
records give rise to is present -/
def checkLookup (idx : Nat) (o : SlotObs) (what : String) (items : List (Str × Str)) (keysOf : Record → List Str)
    (want : List Record → Str → Option Str) : List String :=
  match o.recs with
  | none => []
  | some recs =>
    if !Spec.unique recs then [] else      -- a non-strict converter with clashes: last writer wins, not specified
    (if items.all fun kv => want recs kv.1 == some kv.2 then []
     else [s!"step {idx}: {what} holds an item that the observed records do not give rise to"]) ++
    (if (recs.flatMap keysOf).all fun k => items.any fun kv => kv.1 == k then []
     else [s!"step {idx}: {what} lacks a key that the observed records give rise to"])

/-- which `add_record` calls are rejected (C05): the new record matches several records of the converter, or one
without `merge` — "matches" as `_match_record` says, up to case in case-insensitive mode — judged on the records
observed before the call.  (`C05_reject` proves the model rejects exactly then.) -/
def checkAdd (idx : Nat) (fold : Str → Str) (o : SlotObs) (what : String) (r : Record) (cs merge : Bool) (obs : Val) :
    List String :=
  match o.recs with
  | none => []
  | some recs =>
    if !Spec.unique recs then [] else
    let hits := (recs.filter fun x => matchesRec fold cs r x).length
    let mustReject := hits > 1 || (hits == 1 && !merge)
    match obs with
    | .none => if mustReject then [s!"step {idx}: {what} was accepted although the new record matches {hits} existing record(s)"] else []
    | .err .valueError =>
      if mustReject then [] else [s!"step {idx}: {what} was rejected although the new record matches {hits} existing record(s)"]
    | .err e => [s!"step {idx}: {what} raised {e.name}, expected ValueError or success"]
    | _ => []

abbrev expectedAfterAdd := @Spec.afterAdd

/-- what the next reading of the records must show after an `add_record` / `add_prefix` call -/
def expectAfterAdd (fold : Str → Str) (o : SlotObs) (r : Record) (cs merge : Bool) (obs : Val) : Option (List Record) :=
  match o.recs with
  | none => none
  | some recs =>
    if !Spec.unique recs then none else
    match obs with
    | .none => expectedAfterAdd fold recs r cs merge
    | .err _ => some recs                      -- a rejected call leaves no trace
    | _ => none

def checkStep (fold : Str → Str) (idx : Nat) (t : SlotTable) (st : Step) (obs : Val) : SlotTable × List String :=
  match st with
  | .remapCurie dst src rm =>
    let errs := match obs with
      | .none => []
      | .err e => if [Err.dupKeys, .dupValues, .inconsistent, .cycle].contains e then []
          else [s!"step {idx}: remap_curie_prefixes raised {e.name}, not one of its four documented errors"]
      | _ => []
    (t.put { slot := dst, derived := (t.get src).recs.map fun b => .remapCurie b rm }, errs)
  | .remapUri dst src rm =>
    let errs := match obs with
      | .none => if Spec.C12.transitive rm then [s!"step {idx}: remap_uri_prefixes accepted a mapping with a string that is both key and value"] else []
      | .err .transitive => if Spec.C12.transitive rm then [] else [s!"step {idx}: TransitiveError although no string is both key and value"]
      | _ => []
    (t.put { slot := dst, derived := (t.get src).recs.map fun b => .remapUri b rm }, errs)
  | .rewire dst src rm => (t.put { slot := dst, derived := (t.get src).recs.map fun b => .rewire b rm }, [])
  | .chain dst srcs cs =>
    -- C09: the result is a function of the inputs' record lists (`Spec.chainRecords`, `C09_chain_refines`)
    let inputs := srcs.map fun i => (t.get i).recs
    if srcs.isEmpty || !inputs.all (fun o => match o with | some l => Spec.unique l && l.all Spec.recOK | none => false) then
      (t.put { slot := dst }, [])
    else
      let want := Spec.chainRecords fold cs (inputs.map fun o => o.getD [])
      match want, obs with
      | some l, .none => (t.put { slot := dst, expect := some l }, [])
      | none, .none => (t.put { slot := dst }, [s!"step {idx}: chain accepted inputs that must be rejected (a record bridges two earlier records)"])
      | some _, .err _ => (t.put { slot := dst }, [s!"step {idx}: chain rejected inputs it must accept"])
      | _, _ => (t.put { slot := dst }, [])
  | .sub dst src prefixes =>
    -- C09: the restriction holds exactly the records one of whose CURIE prefixes is requested (`C09_sub_refines`)
    match (t.get src).recs, obs with
    | some l, .none =>
      (t.put { slot := dst, expect := if Spec.unique l then some (Spec.subRecords l prefixes) else none }, [])
    | _, _ => (t.put { slot := dst }, [])
  | .clone dst src =>
    -- a copy holds what the original holds: what was observed of the original is expected of the copy
    (t.put { t.get src with slot := dst }, [])
  | .fresh dst src extra =>
    (t.put { slot := dst },
      match (t.get src).recs with
      | some recs => checkInit idx "Converter(records of an existing converter + new records)" (.ok (recs ++ extra)) true obs
      | none => [])
  | .init dst recs _ strict =>
    -- a strict converter holds exactly the records it was given (whatever iterable they came in)
    (t.put { slot := dst, expect := if strict then some recs else none }, checkInit idx "Converter(...)" (.ok recs) strict obs)
  | .loadPm dst pm _ strict =>
    (t.put { slot := dst, expect := some (Loaders.prefixMapRecords pm) },
      checkInit idx "from_prefix_map" (.ok (Loaders.prefixMapRecords pm)) strict obs)
  | .loadPriority dst data _ =>
    (t.put { slot := dst, expect := (Loaders.priorityRecords data).toOption },
      checkInit idx "from_priority_prefix_map" (Loaders.priorityRecords data) true obs)
  | .loadReverse dst rpm _ =>
    (t.put { slot := dst, expect := (Loaders.reverseRecords rpm).toOption, expectAnyShortest := true },
      checkInit idx "from_reverse_prefix_map" (Loaders.reverseRecords rpm) true obs)
  | .loadJsonld dst ctx _ =>
    (t.put { slot := dst, expect := ((Loaders.jsonldPrefixMap ctx).map Loaders.prefixMapRecords).toOption },
      checkInit idx "from_jsonld" ((Loaders.jsonldPrefixMap ctx).map Loaders.prefixMapRecords) true obs)
  | .loadUpgrade dst pm =>
    (t.put { slot := dst, expect := (Loaders.upgradePrefixMap pm).toOption },
      match Loaders.upgradePrefixMap pm, obs with
      | .ok _, .none => []
      | _, _ => [s!"step {idx}: a strict converter does not accept the records of upgrade_prefix_map"])
  | .dups recs =>
    match obs with
    | .strs l =>
      if !recs.all Spec.recOK then (t, [s!"step {idx}: invalid record accepted"]) else
      let want := Spec.expectedListing recs
      let got := l.filterMap splitEntry
      if got.length != l.length then (t, [s!"step {idx}: malformed listing"])
      else if (want.all fun w => got.any (Spec.sameClash w)) && (got.all fun g => want.any (Spec.sameClash g)) then (t, [])
      else (t, [s!"step {idx}: the duplicate listing is not exactly the set of clashing (record, record, string) triples"])
    | .err e => (t, if !recs.all Spec.recOK && e == .validation then [] else [s!"step {idx}: unexpected error for a listing"])
    | _ => (t, [s!"step {idx}: no listing"])
  | .query c q =>
    let o := t.get c
    match q.meth, obs with
    | "records", .recs l =>
      let errs := (if Spec.unique l then [] else [s!"step {idx}: observed records are not one-owner unique"])
        ++ (if l.all Spec.recOK then [] else [s!"step {idx}: a record lists its own canonical value among its synonyms"])
        ++ (match o.derived with
            | some (.remapCurie before rm) => (Spec.C11.ok before l rm).map fun m => s!"step {idx}: remap_curie_prefixes: {m}"
            | some (.remapUri before rm) =>
              (Spec.C12.ok before l (Spec.C12.selUri rm)).map fun m => s!"step {idx}: remap_uri_prefixes: {m}"
            | some (.rewire before rm) =>
              (Spec.C12.ok before l (Spec.C12.selRewire rm)).map fun m => s!"step {idx}: rewire: {m}"
            | none => [])
        ++ (match o.expect with
            | some want =>
              let same (w r : Record) : Bool :=
                if o.expectAnyShortest then
                  w.pfx == r.pfx && Spec.sameSet w.pSyn r.pSyn && Spec.sameSet w.allU r.allU &&
                    r.allU.all (fun k => r.uri.length ≤ k.length)
                else Spec.sameRecord w r
              if want.length == l.length && want.all (fun w => l.any (same w)) then []
              else [s!"step {idx}: the converter does not hold exactly the records its construction and history denote"]
            | none => [])
      (t.put { o with recs := some l }, errs)
    | "delimiter", .str d => (t.put { o with delim := some d }, [])
    | "prefix_map", .dict items => (t, checkLookup idx o "prefix_map" items (fun r => r.allP) (fun recs k => (Spec.ownerP recs k).map (·.uri)))
    | "synonym_to_prefix", .dict items => (t, checkLookup idx o "synonym_to_prefix" items (fun r => r.allP) (fun recs k => (Spec.ownerP recs k).map (·.pfx)))
    | "reverse_prefix_map", .dict items => (t, checkLookup idx o "reverse_prefix_map" items (fun r => r.allU) (fun recs k => (Spec.ownerU recs k).map (·.pfx)))
    | "pattern_map", .dict items => (t, checkLookup idx o "pattern_map" items
        (fun r => if r.truePattern.isSome then [r.pfx] else []) Spec.patternOf)
    | _, _ =>
      match o.recs, o.delim with
      | some recs, some d =>
        if Spec.specified q then
          let want := Spec.answer recs d q
          if Val.same want obs then (t, [])
          else (t, [s!"step {idx}: {q.meth} answers differently from the specification over the observed records"])
        else (t, [])
      | _, _ => (t, [])
  | .addRecord c r cs merge =>
    if Spec.recOK r then
      (t.put { slot := c, expect := expectAfterAdd fold (t.get c) r cs merge obs },
        checkAdd idx fold (t.get c) "add_record" r cs merge obs)
    else (t.put { slot := c }, [])
  | .addPrefix c p u ps us cs merge =>
    let r : Record := { pfx := p, uri := u, pSyn := sortStrs ps, uSyn := sortStrs us }
    if Spec.recOK r then
      (t.put { slot := c, expect := expectAfterAdd fold (t.get c) r cs merge obs },
        checkAdd idx fold (t.get c) "add_prefix" r cs merge obs)
    else (t.put { slot := c }, [])
  | _ =>
    match st.target with
    | some c => (t.put { slot := c }, [])     -- records may have changed: forget them
    | none => (t, [])

def specCheck (fold : Str → Str) (steps : List Step) (obs : List Val) : List String :=
  let rec go (idx : Nat) (t : SlotTable) : List Step → List Val → List String
    | st :: sts, o :: os =>
      let (t', errs) := checkStep fold idx t st o
      errs ++ go (idx + 1) t' sts os
    | _, _ => []
  go 0 [] steps obs
