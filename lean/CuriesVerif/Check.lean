import CuriesVerif.Program
import CuriesVerif.Spec.Answer

/-!
# Spec verdict on observed histories

`specCheck` walks a program together with the values *the implementation* returned and
evaluates, for every query whose converter's records and delimiter were observed since its
last mutation, the specification `Spec.answer` on those observed records.  It also checks the
one-owner uniqueness (C04) of every observed record list.  The result is the list of failures.
-/

namespace Val
/-- errors are compared up to the family the properties distinguish -/
def errFamily (e : Err) : Nat :=
  if e.isLibraryValueError then 0 else
  match e with
  | .valueError => 1 | .validation => 2 | .dupUri => 3 | .dupPrefix => 4 | .dupKeys => 5
  | .dupValues => 6 | .inconsistent => 7 | .cycle => 8 | .transitive => 9 | .keyError => 10
  | .indexError => 11 | .typeError => 12 | _ => 13

def same : Val → Val → Bool
  | .err a, .err b => errFamily a == errFamily b
  | a, b => a == b
end Val

structure SlotObs where
  slot : Nat
  recs : Option (List Record) := none
  delim : Option Str := none

abbrev SlotTable := List SlotObs

namespace SlotTable
def get (t : SlotTable) (i : Nat) : SlotObs :=
  match t.find? (·.slot == i) with
  | some o => o
  | none => { slot := i }
def put (t : SlotTable) (o : SlotObs) : SlotTable := o :: t.filter (·.slot != o.slot)
end SlotTable

def Step.target : Step → Option Nat
  | .init dst .. => some dst
  | .addRecord c .. => some c
  | .addPrefix c .. => some c
  | .chain dst .. => some dst
  | .sub dst .. => some dst
  | .query .. => none

def checkStep (idx : Nat) (t : SlotTable) (st : Step) (obs : Val) : SlotTable × List String :=
  match st with
  | .query c q =>
    let o := t.get c
    match q.meth, obs with
    | "records", .recs l =>
      let errs := (if Spec.unique l then [] else [s!"step {idx}: observed records are not one-owner unique"])
        ++ (if l.all Spec.recOK then [] else [s!"step {idx}: a record lists its own canonical value among its synonyms"])
      (t.put { o with recs := some l }, errs)
    | "delimiter", .str d => (t.put { o with delim := some d }, [])
    | _, _ =>
      match o.recs, o.delim with
      | some recs, some d =>
        if Spec.specified q then
          let want := Spec.answer recs d q
          if Val.same want obs then (t, [])
          else (t, [s!"step {idx}: {q.meth} answers differently from the specification over the observed records"])
        else (t, [])
      | _, _ => (t, [])
  | _ =>
    match st.target with
    | some c => (t.put { slot := c }, [])     -- records may have changed: forget them
    | none => (t, [])

def specCheck (steps : List Step) (obs : List Val) : List String :=
  let rec go (idx : Nat) (t : SlotTable) : List Step → List Val → List String
    | st :: sts, o :: os =>
      let (t', errs) := checkStep idx t st o
      errs ++ go (idx + 1) t' sts os
    | _, _ => []
  go 0 [] steps obs
