import CuriesVerif.Model.Csv
import CuriesVerif.Model.Header
import CuriesVerif.Model.Files
import CuriesVerif.Check
import CuriesVerif.Spec.W3C
import CuriesVerif.Model.Reference
import CuriesVerif.Model.Bulk
import CuriesVerif.Model.Resolver
import CuriesVerif.Model.Mapping
import CuriesVerif.Model.JsonFiles

/-!
# JSON-lines driver

One request per input line, one response per output line, flushed at the end.
`{"k":"prog","fold":[[s,f],…],"steps":[…]}` → `{"model":[…]}`.
-/

open Lean (Json)

/-- a modelled JSON value as a tagged protocol value: {"t":"null"} | {"t":"bool","v":b} | {"t":"str","v":[code points]}
| {"t":"arr","v":[…]} | {"t":"obj","v":[[key,value],…]} -/
partial def encJV : JsonText.JV → Json
  | .null => Json.mkObj [("t", "null")]
  | .bool b => Json.mkObj [("t", "bool"), ("v", .bool b)]
  | .str s => Json.mkObj [("t", "str"), ("v", Codec.encStr s)]
  | .arr xs => Json.mkObj [("t", "arr"), ("v", .arr (xs.map encJV).toArray)]
  | .obj kvs => Json.mkObj [("t", "obj"), ("v", .arr (kvs.map fun (k, v) => Json.arr #[Codec.encStr k, encJV v]).toArray)]

partial def decJV (j : Json) : Except String JsonText.JV := do
  let t ← (← j.getObjVal? "t").getStr?
  match t with
  | "null" => pure .null
  | "bool" => pure (.bool (← (← j.getObjVal? "v").getBool?))
  | "str" => pure (.str (← Codec.str (← j.getObjVal? "v")))
  | "arr" => pure (.arr (← (← (← j.getObjVal? "v").getArr?).toList.mapM decJV))
  | "obj" =>
    let items ← (← (← j.getObjVal? "v").getArr?).toList.mapM fun kv => do
      match (← kv.getArr?).toList with
      | [k, v] => pure (← Codec.str k, ← decJV v)
      | _ => throw "key/value pair expected"
    pure (.obj items)
  | _ => throw s!"unknown JSON value tag {t}"

def encRecordDict (d : Writers.RecordDict) : Json :=
  Json.mkObj [("p", Codec.encStr d.pfx), ("u", Codec.encStr d.uri),
    ("ps", match d.pSyn with | some l => Codec.encStrs l | none => .null),
    ("us", match d.uSyn with | some l => Codec.encStrs l | none => .null),
    ("pat", match d.pattern with | some x => Codec.encStr x | none => .null)]

def handle (j : Json) : Except String Json := do
  let k ← (← j.getObjVal? "k").getStr?
  match k with
  | "prog" =>
    let tbl ← Codec.pairs (Codec.fieldD j "fold" (.arr #[]))
    let steps ← Codec.program (← j.getObjVal? "steps")
    let vals := runProgram (mkFold tbl) steps
    let fails ← match j.getObjVal? "obs" with
      | .ok o => do
        let obs ← (← o.getArr?).toList.mapM Codec.val
        pure (specCheck (mkFold tbl) steps obs)
      | .error _ => pure []
    pure (Json.mkObj [("model", .arr (vals.map Codec.encVal).toArray),
      ("fail", .arr (fails.map Json.str).toArray)])
  | "bulk" =>
    -- {"k":"bulk","records":…,"delim":…,"meth":"compress",…,"amb":bool,"s":bool,"p":bool,"col":n,
    --  "mode":"pd"|"file","target":n,"header":bool,"rows":[[cell,…],…]}
    let recs ← Codec.records (← j.getObjVal? "records")
    let delim ← Codec.str (Codec.fieldD j "delim" (.arr #[58]))
    match Conv.init? recs delim with
    | .error _ => throw "bad converter"
    | .ok c =>
      let meth ← (← j.getObjVal? "meth").getStr?
      let f := Bulk.scalar c meth (Codec.boolD j "amb" false) (Codec.boolD j "s" false) (Codec.boolD j "p" false)
      let col ← (← j.getObjVal? "col").getNat?
      let rows ← (← (← j.getObjVal? "rows").getArr?).toList.mapM Codec.strs
      let mode ← (← j.getObjVal? "mode").getStr?
      if mode == "pd" then
        let target ← (← j.getObjVal? "target").getNat?
        match Bulk.pdMap f col target (rows.map fun r => r.map some) with
        | .ok out => pure (Json.mkObj [("rows", .arr (out.map fun r => Json.arr (r.map Codec.encOptStr).toArray).toArray)])
        | .error e => pure (Json.mkObj [("e", .str e.name)])
      else
        -- through the text of the file: what csv.writer puts on disk, the operation on that text, the text afterwards
        let sep ← (Codec.fieldD j "sep" (.num 9)).getNat?
        let text0 := Csv.csvWrite sep rows
        let (res, text1) := Files.fileHelperText f col (Codec.boolD j "header" true) sep text0
        pure (Json.mkObj [("result", match res with | .ok _ => Json.null | .error e => Json.str e.name),
          ("rows", .arr ((Csv.csvRead sep text1).map Codec.encStrs).toArray),
          ("text0", Codec.encStr text0), ("text1", Codec.encStr text1)])
  | "resolve" =>
    -- {"k":"resolve","records":…,"delim":…,"paths":[str,…]}  (paths without the leading "/")
    let recs ← Codec.records (← j.getObjVal? "records")
    let delim ← Codec.str (Codec.fieldD j "delim" (.arr #[58]))
    match Conv.init? recs delim with
    | .error _ => throw "bad converter"
    | .ok c =>
      let paths ← Codec.strs (← j.getObjVal? "paths")
      let enc (r : Nat × Option Str) : Json := Json.arr #[Json.num (Lean.JsonNumber.fromNat r.1), Codec.encOptStr r.2]
      pure (Json.mkObj [
        ("flask", .arr (paths.map fun p => enc (Resolver.respond .flask c p)).toArray),
        ("fastapi", .arr (paths.map fun p => enc (Resolver.respond .fastapi c p)).toArray)])
  | "mapping" =>
    -- {"k":"mapping","records":…,"invalid":[code points],"uris":[str,…]}
    let recs ← Codec.records (← j.getObjVal? "records")
    match Conv.init? recs with
    | .error _ => throw "bad converter"
    | .ok c =>
      let invalid ← (← (Codec.fieldD j "invalid" (.arr #[])).getArr?).toList.mapM (·.getNat?)
      let validIri : Str → Bool := fun s => s.all fun ch => !invalid.contains ch
      let uris ← Codec.strs (← j.getObjVal? "uris")
      pure (Json.mkObj [("answers", .arr (uris.map fun u => Codec.encStrs (Mapping.answers validIri c true u)).toArray)])
  | "header" =>
    -- {"k":"header","synonyms":[[k,v]…],"supported":[…],"default":str,"headers":[null | [[type,q]…],…]}
    let syn ← Codec.pairs (← j.getObjVal? "synonyms")
    let sup ← Codec.strs (← j.getObjVal? "supported")
    let dflt ← Codec.str (← j.getObjVal? "default")
    let hs ← (← (← j.getObjVal? "headers").getArr?).toList.mapM fun h =>
      match h with
      | .null => pure none
      | _ => do
        let ps ← (← h.getArr?).toList.mapM fun x => do
          match (← x.getArr?).toList with
          | [t, q] => pure (← Codec.str t, ← q.getNat?)
          | _ => throw "part expected"
        pure (some ps)
    pure (Json.mkObj [("types", .arr (hs.map fun h => Codec.encStr (Mapping.handleHeader syn sup dflt h)).toArray)])
  | "refs" =>
    -- {"k":"refs","refs":[{"c":0..3,"p":str,"i":str,"n":str|null},…],"parse":[{"c":…,"s":str,"n":…},…],
    --  "conv":records|null}
    let decRef (x : Json) : Except String Ref := do
      let c ← (← x.getObjVal? "c").getNat?
      let cls : RefClass := match c with | 0 => .tuple | 1 => .reference | 2 => .namable | _ => .named
      let name ← match Codec.fieldD x "n" .null with
        | .null => pure none
        | y => some <$> Codec.str y
      pure { cls, pfx := ← Codec.str (← x.getObjVal? "p"), ident := ← Codec.str (← x.getObjVal? "i"), name }
    let refs ← (← (← j.getObjVal? "refs").getArr?).toList.mapM decRef
    let conv ← match Codec.fieldD j "conv" .null with
      | .null => pure none
      | rs => do
        match Conv.init? (← Codec.records rs) with
        | .ok c => pure (some c)
        | .error _ => throw "bad converter"
    let parses ← (← (Codec.fieldD j "parse" (.arr #[])).getArr?).toList.mapM fun x => do
      let c ← (← x.getObjVal? "c").getNat?
      let cls : RefClass := match c with | 0 => .tuple | 1 => .reference | 2 => .namable | _ => .named
      let name ← match Codec.fieldD x "n" .null with
        | .null => pure none
        | y => some <$> Codec.str y
      let useConv := Codec.boolD x "conv" false
      pure (Ref.fromCurie cls (← Codec.str (← x.getObjVal? "s")) name (if useConv then conv else none))
    let encRef (r : Ref) : Json := Json.mkObj [("p", Codec.encStr r.pfx), ("i", Codec.encStr r.ident),
      ("n", Codec.encOptStr r.name)]
    -- "fromref": [{"c": target class, "src": index into refs, "conv": bool}, …]
    let fromrefs ← (← (Codec.fieldD j "fromref" (.arr #[])).getArr?).toList.mapM fun x => do
      let c ← (← x.getObjVal? "c").getNat?
      let cls : RefClass := match c with | 0 => .tuple | 1 => .reference | 2 => .namable | _ => .named
      let src ← (← x.getObjVal? "src").getNat?
      let useConv := Codec.boolD x "conv" false
      match refs[src]? with
      | some r => pure (Ref.fromReference cls r (if useConv then conv else none))
      | none => throw "fromref: no such reference"
    pure (Json.mkObj [
      ("fromref", .arr (fromrefs.map fun r => match r with
        | .ok x => encRef x
        | .error e => Json.mkObj [("e", .str e.name)]).toArray),
      ("curies", .arr (refs.map fun r => Codec.encStr r.curie).toArray),
      ("eq", .arr (refs.map fun a => Json.arr (refs.map fun b => Json.bool (a.eq b)).toArray).toArray),
      ("hasheq", .arr (refs.map fun a => Json.arr (refs.map fun b => Json.bool (a.hashKey == b.hashKey)).toArray).toArray),
      ("lt", .arr (refs.map fun a => Json.arr (refs.map fun b => Json.bool (a.lt b)).toArray).toArray),
      ("parse", .arr (parses.map fun r => match r with
        | .ok x => encRef x
        | .error e => Json.mkObj [("e", .str e.name)]).toArray)])
  | "tsv" =>
    -- {"k":"tsv","header":[h1,h2],"records":[…]} → the text write_tsv writes and its two-column reading
    let recs ← Codec.records (← j.getObjVal? "records")
    let hdr ← Codec.strs (← j.getObjVal? "header")
    let text := Files.tsvText (hdr.getD 0 []) (hdr.getD 1 []) recs
    pure (Json.mkObj [("text", Codec.encStr text),
      ("pairs", match Files.tsvPairs text with
        | some ps => .arr (ps.map fun pu => Json.arr #[Codec.encStr pu.1, Codec.encStr pu.2]).toArray
        | none => Json.null)])
  | "triples" =>
    -- {"k":"triples","header":[…],"triples":[[[p,i],[p,i],[p,i]],…]} → text written, triples read back
    let hdr ← Codec.strs (← j.getObjVal? "header")
    let ts ← (← (← j.getObjVal? "triples").getArr?).toList.mapM fun t => do
      let refs ← (← t.getArr?).toList.mapM fun r => do
        let pi ← Codec.strs r
        pure ({ cls := .reference, pfx := pi.getD 0 [], ident := pi.getD 1 [] } : Ref)
      match refs with
      | [a, b, c] => pure (a, b, c)
      | _ => throw "a triple has three references"
    let text := Files.triplesText hdr ts
    let encRef (r : Ref) : Json := Json.arr #[Codec.encStr r.pfx, Codec.encStr r.ident]
    pure (Json.mkObj [("text", Codec.encStr text),
      ("read", match Files.readTriples .reference text with
        | .ok l => .arr (l.map fun t => Json.arr #[encRef t.1, encRef t.2.1, encRef t.2.2]).toArray
        | .error e => Json.mkObj [("e", .str e.name)])])
  | "header_text" =>
    -- {"k":"header_text","space":[code points],"synonyms":[[k,v]…],"supported":[…],"default":str,"texts":[str|null,…]}
    let spaces ← (← (← j.getObjVal? "space").getArr?).toList.mapM (·.getNat?)
    let syn ← Codec.pairs (← j.getObjVal? "synonyms")
    let sup ← Codec.strs (← j.getObjVal? "supported")
    let dflt ← Codec.str (← j.getObjVal? "default")
    let texts ← (← (← j.getObjVal? "texts").getArr?).toList.mapM fun t =>
      match t with
      | .null => pure none
      | t => do pure (some (← Codec.str t))
    pure (Json.mkObj [("types", .arr (texts.map fun t =>
      match Header.handleHeaderText (fun c => spaces.contains c) syn sup dflt t with
      | .ok x => Codec.encStr x
      | .error e => Json.mkObj [("e", .str e.name)]).toArray)])
  | "json" =>
    -- {"k":"json","texts":[str,…],"values":[tagged,…],"indent":n|null,"ascii":bool,"sort":bool,"epm":[str,…],"jsonld":[str,…]}
    --   → what the modelled json.loads makes of each text (dict semantics applied), the text the modelled json.dumps
    --     writes for each value, each extended-prefix-map text read as record dictionaries, each JSON-LD text as terms
    let texts ← Codec.strs (Codec.fieldD j "texts" (.arr #[]))
    let values ← (← (Codec.fieldD j "values" (.arr #[])).getArr?).toList.mapM decJV
    let indent ← match Codec.fieldD j "indent" .null with
      | .null => pure none
      | x => some <$> x.getNat?
    let ascii := Codec.boolD j "ascii" true
    let sortKeys := Codec.boolD j "sort" false
    let epm ← Codec.strs (Codec.fieldD j "epm" (.arr #[]))
    let jsonld ← Codec.strs (Codec.fieldD j "jsonld" (.arr #[]))
    let err := Json.mkObj [("t", "error")]
    pure (Json.mkObj [
      ("parsed", .arr (texts.map fun t => match JsonText.parse t with
        | some v => encJV v.dedup
        | none => err).toArray),
      ("rendered", .arr (values.map fun v =>
        Codec.encStr (JsonText.render ⟨indent, ascii⟩ 0 (if sortKeys then v.sortKeys else v))).toArray),
      ("epm", .arr (epm.map fun t => match JsonFiles.epmRead t with
        | some ds => Json.arr (ds.map encRecordDict).toArray
        | none => .null).toArray),
      ("jsonld", .arr (jsonld.map fun t => match JsonFiles.jsonldRead t with
        | some terms => Json.arr (terms.map fun (k, term) => Json.arr #[Codec.encStr k, match term with
            | .str u => Json.mkObj [("s", Codec.encStr u)]
            | .prefixDict (some u) => Json.mkObj [("id", Codec.encStr u)]
            | .prefixDict none => Json.mkObj [("id", .null)]
            | .other => Json.mkObj [("other", .bool true)]]).toArray
        | none => .null).toArray)])
  | "csv" =>
    -- {"k":"csv","d":code point,"texts":[str,…],"tables":[[[cell,…],…],…]} → parsed rows of each text, text of each table
    let d ← (← j.getObjVal? "d").getNat?
    let texts ← Codec.strs (Codec.fieldD j "texts" (.arr #[]))
    let tables ← (← (Codec.fieldD j "tables" (.arr #[])).getArr?).toList.mapM fun t => do
      (← t.getArr?).toList.mapM Codec.strs
    pure (Json.mkObj [
      ("read", .arr (texts.map fun t => Json.arr ((Csv.csvRead d t).map Codec.encStrs).toArray).toArray),
      ("written", .arr (tables.map fun t => Codec.encStr (Csv.csvWrite d t)).toArray)])
  | "w3c" =>
    -- {"k":"w3c","space":[code points],"strs":[...],"obs":[[prefixBool,curieBool],…]}
    let sp ← (← (Codec.fieldD j "space" (.arr #[])).getArr?).toList.mapM (·.getNat?)
    let space : Nat → Bool := fun n => sp.contains n
    let ss ← Codec.strs (← j.getObjVal? "strs")
    let model := ss.map fun s => Json.arr #[.bool (W3C.isW3cPrefix s), .bool (W3C.isW3cCurie space s)]
    let fails ← match j.getObjVal? "obs" with
      | .ok o => do
        let obs ← (← o.getArr?).toList.mapM fun x => do
          match (← x.getArr?).toList with
          | [.bool a, .bool b] => pure (a, b)
          | _ => throw "pair of booleans expected"
        pure ((ss.zip obs).zipIdx.filterMap fun ((s, (a, b)), i) =>
          if a != Spec.W3C.ncName s then some s!"{i}: is_w3c_prefix is {a} but the string is {if a then "not " else ""}an ASCII NCName"
          else if b != Spec.W3C.curie space s then some s!"{i}: is_w3c_curie is {b}, the documented grammar says {!b}"
          else none)
      | .error _ => pure []
    pure (Json.mkObj [("model", .arr model.toArray), ("fail", .arr (fails.map Json.str).toArray)])
  | _ => throw s!"unknown kind {k}"

partial def loop (hin hout : IO.FS.Stream) : IO Unit := do
  let line ← hin.getLine
  if line.isEmpty then return ()
  let out := match Json.parse line with
    | .error e => Json.mkObj [("error", .str s!"json: {e}")]
    | .ok j => match handle j with
      | .ok r => r
      | .error e => Json.mkObj [("error", .str e)]
  hout.putStrLn out.compress
  loop hin hout

def main : IO Unit := do
  let hin ← IO.getStdin
  let hout ← IO.getStdout
  loop hin hout
  hout.flush
