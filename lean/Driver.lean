import CuriesVerif.Check
import CuriesVerif.Spec.W3C

/-!
# JSON-lines driver

One request per input line, one response per output line, flushed at the end.
`{"k":"prog","fold":[[s,f],…],"steps":[…]}` → `{"model":[…]}`.
-/

open Lean (Json)

def handle (j : Json) : Except String Json := do
  let k ← (← j.getObjVal? "k").getStr?
  match k with
  | "prog" =>
    let tbl ← Codec.pairs (Codec.fieldD j "fold" (.arr #[]))
    let steps ← Codec.program (← j.getObjVal? "steps")
    let vals := runProgram (mkFold tbl) steps
    let fails ← match j.getObjVal? "obs" with
      | .ok o => do
        let obs ← (← o.getArr?).toList.mapM Codec.val
        pure (specCheck steps obs)
      | .error _ => pure []
    pure (Json.mkObj [("model", .arr (vals.map Codec.encVal).toArray),
      ("fail", .arr (fails.map Json.str).toArray)])
  | "w3c" =>
    -- {"k":"w3c","space":[code points],"strs":[...],"obs":[[prefixBool,curieBool],…]}
    let sp ← (← (Codec.fieldD j "space" (.arr #[])).getArr?).toList.mapM (·.getNat?)
    let space : Nat → Bool := fun n => sp.contains n
    let ss ← Codec.strs (← j.getObjVal? "strs")
    let model := ss.map fun s => Json.arr #[.bool (W3C.isW3cPrefix s), .bool (W3C.isW3cCurie space s)]
    let fails ← match j.getObjVal? "obs" with
      | .ok o => do
        let obs ← (← o.getArr?).toList.mapM fun x => do
          match (← x.getArr?).toList with
          | [.bool a, .bool b] => pure (a, b)
          | _ => throw "pair of booleans expected"
        pure ((ss.zip obs).zipIdx.filterMap fun ((s, (a, b)), i) =>
          if a != Spec.W3C.ncName s then some s!"{i}: is_w3c_prefix is {a} but the string is {if a then "not " else ""}an ASCII NCName"
          else if b != Spec.W3C.curie space s then some s!"{i}: is_w3c_curie is {b}, the documented grammar says {!b}"
          else none)
      | .error _ => pure []
    pure (Json.mkObj [("model", .arr model.toArray), ("fail", .arr (fails.map Json.str).toArray)])
  | _ => throw s!"unknown kind {k}"

partial def loop (hin hout : IO.FS.Stream) : IO Unit := do
  let line ← hin.getLine
  if line.isEmpty then return ()
  let out := match Json.parse line with
    | .error e => Json.mkObj [("error", .str s!"json: {e}")]
    | .ok j => match handle j with
      | .ok r => r
      | .error e => Json.mkObj [("error", .str e)]
  hout.putStrLn out.compress
  loop hin hout

def main : IO Unit := do
  let hin ← IO.getStdin
  let hout ← IO.getStdout
  loop hin hout
  hout.flush
