import CuriesVerif.Check

/-!
# JSON-lines driver

One request per input line, one response per output line, flushed at the end.
`{"k":"prog","fold":[[s,f],…],"steps":[…]}` → `{"model":[…]}`.
-/

open Lean (Json)

def handle (j : Json) : Except String Json := do
  let k ← (← j.getObjVal? "k").getStr?
  match k with
  | "prog" =>
    let tbl ← Codec.pairs (Codec.fieldD j "fold" (.arr #[]))
    let steps ← Codec.program (← j.getObjVal? "steps")
    let vals := runProgram (mkFold tbl) steps
    let fails ← match j.getObjVal? "obs" with
      | .ok o => do
        let obs ← (← o.getArr?).toList.mapM Codec.val
        pure (specCheck steps obs)
      | .error _ => pure []
    pure (Json.mkObj [("model", .arr (vals.map Codec.encVal).toArray),
      ("fail", .arr (fails.map Json.str).toArray)])
  | _ => throw s!"unknown kind {k}"

partial def loop (hin hout : IO.FS.Stream) : IO Unit := do
  let line ← hin.getLine
  if line.isEmpty then return ()
  let out := match Json.parse line with
    | .error e => Json.mkObj [("error", .str s!"json: {e}")]
    | .ok j => match handle j with
      | .ok r => r
      | .error e => Json.mkObj [("error", .str e)]
  hout.putStrLn out.compress
  loop hin hout

def main : IO Unit := do
  let hin ← IO.getStdin
  let hout ← IO.getStdout
  loop hin hout
  hout.flush
