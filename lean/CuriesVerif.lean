-- Root of the `CuriesVerif` library: everything that `lake build` must check.
import CuriesVerif.Basic
import CuriesVerif.Model.Converter
import CuriesVerif.Model.Incremental
import CuriesVerif.Model.Run
import CuriesVerif.Model.Loaders
import CuriesVerif.Codec
import CuriesVerif.Program
import CuriesVerif.Spec.Answer
import CuriesVerif.Check
import CuriesVerif.Lemmas.Basic
import CuriesVerif.Lemmas.Lpi
import CuriesVerif.Lemmas.Sort
import CuriesVerif.Lemmas.WF
import CuriesVerif.Lemmas.Refine
import CuriesVerif.Lemmas.Longest
import CuriesVerif.Lemmas.Laws
import CuriesVerif.Properties.All
