-- Root of the `CuriesVerif` library: everything that `lake build` must check.
import CuriesVerif.Basic
import CuriesVerif.Model.Converter
import CuriesVerif.Model.Incremental
import CuriesVerif.Model.Run
import CuriesVerif.Codec
import CuriesVerif.Program
import CuriesVerif.Spec.Answer
import CuriesVerif.Check
import CuriesVerif.Properties.All
