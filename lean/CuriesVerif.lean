-- This module serves as the root of the `CuriesVerif` library.
-- Import modules here that should be built as part of the library.
import CuriesVerif.Basic
