import CuriesVerif.Properties.All
import Lean

/-!
# Axiom audit

`lake env lean --run Audit.lean C01` prints one JSON line per theorem of the library whose
name starts with `C01_`, with the axioms it depends on (what `#print axioms` shows).
-/

open Lean

def auditNames (env : Environment) (pfx : String) : List Name :=
  env.constants.fold (init := []) fun acc n ci =>
    match ci with
    | .thmInfo _ =>
      let s := n.toString
      if s.startsWith (pfx ++ "_") && !n.isInternal then n :: acc else acc
    | _ => acc

abbrev AM := StateT Environment IO
instance : MonadEnv AM := ⟨get, fun f => modify f⟩

def main (args : List String) : IO Unit := do
  let pfx := args.headD "C"
  initSearchPath (← findSysroot)
  let env ← importModules #[{ module := `CuriesVerif.Properties.All }] {}
  let names := (auditNames env pfx).toArray.qsort (fun a b => a.toString < b.toString)
  for n in names do
    let (axs, _) ← (collectAxioms n : AM (Array Name)).run env
    let axs := axs.toList.map (fun a => Json.str a.toString)
    IO.println (Json.mkObj [("name", Json.str n.toString), ("axioms", Json.arr axs.toArray)]).compress
